#!/bin/bash
# Run the pinned suite on /repo (guard off: there is no hook) and compare with BASELINE.json stable_pass.
OUT=${1:-/tmp/verif_baseline.xml}
cd /repo && /venv/bin/python -m pytest -ra -q -p no:cacheprovider --timeout=900 --continue-on-collection-errors --junitxml=$OUT > /tmp/verif_baseline.log 2>&1
python3 - "$OUT" <<'PY'
import json, sys, xml.etree.ElementTree as ET
base = set(json.load(open('/root/.vp/BASELINE.json'))['stable_pass'])
passed = set()
for tc in ET.parse(sys.argv[1]).getroot().iter('testcase'):
    if not any(ch.tag in ('failure', 'error', 'skipped') for ch in tc):
        passed.add(f"{tc.get('classname')}::{tc.get('name')}")
missing = sorted(base - passed)
print(f"baseline stable_pass={len(base)} passed_now={len(passed)} missing={len(missing)}")
for m in missing[:20]:
    print("  MISSING", m)
PY
