"""
Build-phase sensitivity tool (not a check): apply textual mutants to a scratch
worktree of /repo under /tmp, run a property's quick check against it through
PYTHONPATH, report whether a VIOLATION was printed, and remove the worktree.

usage: python tools/mutants.py <PROP> [name-substring] [--runs N]
"""
from __future__ import annotations

import os
import subprocess
import sys
import time

sys.path.insert(0, os.path.dirname(os.path.dirname(os.path.abspath(__file__))))
from tools.mutant_defs import MUTANTS  # noqa: E402

WT = "/tmp/verif_mut_wt"


def sh(cmd: list[str], **kw):
    return subprocess.run(cmd, capture_output=True, text=True, **kw)


def main() -> int:
    prop = sys.argv[1]
    sub = sys.argv[2] if len(sys.argv) > 2 and not sys.argv[2].startswith("--") else ""
    runs = None
    if "--runs" in sys.argv:
        runs = sys.argv[sys.argv.index("--runs") + 1]
    sh(["git", "-C", "/repo", "worktree", "remove", "--force", WT])
    r = sh(["git", "-C", "/repo", "worktree", "add", "--detach", WT, "HEAD"])
    if r.returncode != 0:
        print(r.stderr)
        return 2
    results = []
    try:
        for m in MUTANTS:
            if m["prop"] != prop or sub not in m["name"]:
                continue
            path = os.path.join(WT, m["file"])
            src = open(path).read()
            edits = m.get("edits") or [(m["old"], m["new"])]
            bad_pat = [o for o, _ in edits if src.count(o) != 1]
            if bad_pat:
                print(f"MUTANT {m['name']}: pattern occurs {src.count(bad_pat[0])} times, skipped")
                results.append((m["name"], "bad-pattern", 0))
                continue
            for o, n in edits:
                src = src.replace(o, n)
            open(path, "w").write(src)
            env = dict(os.environ)
            env["PYTHONPATH"] = WT
            env["PYTHONDONTWRITEBYTECODE"] = "1"
            env["VERIF_EVIDENCE_DIR"] = "/tmp/verif_scratch_evidence"
            env["VERIF_REPLAY_DIR"] = "/tmp/verif_scratch_replays"
            if runs or m.get("runs"):
                env["VERIF_RUNS"] = str(runs or m["runs"])
            t0 = time.time()
            p = sh(["/venv/bin/python", "-m", "simverif", prop, "--tier", "quick"], cwd="/verif", env=env, timeout=1200)
            dt = time.time() - t0
            assert WT in p.stdout, "check did not import the scratch worktree"
            caught = "VIOLATION property=" in p.stdout and p.returncode == 1
            line = next((l for l in p.stdout.splitlines() if l.startswith("violation:")), "")
            status = "CAUGHT" if caught else f"MISSED(exit {p.returncode})"
            print(f"MUTANT {m['name']:45s} {status:16s} {dt:5.1f}s  {line[:150]}")
            if not caught and p.returncode not in (0, 1):
                print(p.stdout[-1500:], p.stderr[-1500:])
            results.append((m["name"], status, dt))
            sh(["git", "-C", WT, "checkout", "--", "."])
    finally:
        sh(["git", "-C", "/repo", "worktree", "remove", "--force", WT])
        sh(["rm", "-rf", "/tmp/verif_scratch_replays", "/tmp/verif_scratch_evidence"])
    missed = [r for r in results if not r[1].startswith("CAUGHT")]
    print(f"{len(results) - len(missed)}/{len(results)} caught")
    return 0 if not missed else 1


if __name__ == "__main__":
    sys.exit(main())
