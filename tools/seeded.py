"""
Evaluate seeded breaking changes (build phase tool, not a check).

usage: python tools/seeded.py <dir-with-patch.diff-and-demo.py> [--props C01,C02] [--runs N] [--tier quick]

For the given directory (patch.diff, demo.py, meta.json): in a scratch worktree of
/repo HEAD under /tmp
  1. demo.py on the unpatched tree must exit 0,
  2. the patch must apply, demo.py must then exit non-zero,
  3. (with --suite) the pinned test suite must still pass with the patch,
  4. the quick checks of the listed properties (default: the property in meta.json)
     are run against the patched tree through PYTHONPATH; report which raise a VIOLATION.
The worktree is removed afterwards.
"""

from __future__ import annotations

import json
import os
import subprocess
import sys
import time

WT = "/tmp/verif_seed_eval_wt"


def sh(cmd, **kw):
    return subprocess.run(cmd, capture_output=True, text=True, **kw)


def main() -> int:
    d = os.path.abspath(sys.argv[1])
    args = sys.argv[2:]
    meta = json.load(open(os.path.join(d, "meta.json"))) if os.path.exists(os.path.join(d, "meta.json")) else {}
    props = [meta.get("property", "")]
    if "--props" in args:
        props = args[args.index("--props") + 1].split(",")
    runs = args[args.index("--runs") + 1] if "--runs" in args else None
    tier = args[args.index("--tier") + 1] if "--tier" in args else "quick"
    suite = "--suite" in args
    wt = WT + "_" + str(os.getpid())
    sh(["git", "-C", "/repo", "worktree", "remove", "--force", wt])
    r = sh(["git", "-C", "/repo", "worktree", "add", "--detach", wt, "HEAD"])
    if r.returncode != 0:
        print(r.stderr)
        return 2
    env = dict(os.environ)
    env["PYTHONPATH"] = wt
    env["PYTHONDONTWRITEBYTECODE"] = "1"
    env["VERIF_EVIDENCE_DIR"] = "/tmp/verif_scratch_evidence"
    env["VERIF_REPLAY_DIR"] = "/tmp/verif_scratch_replays"
    out = {"dir": d, "property": props}
    try:
        p = sh(["timeout", "300", "/venv/bin/python", os.path.join(d, "demo.py")], env=env, cwd=wt)
        out["demo_unpatched_exit"] = p.returncode
        a = sh(["git", "-C", wt, "apply", os.path.join(d, "patch.diff")])
        out["patch_applies"] = a.returncode == 0
        if a.returncode != 0:
            print(a.stderr)
        p = sh(["timeout", "300", "/venv/bin/python", os.path.join(d, "demo.py")], env=env, cwd=wt)
        out["demo_patched_exit"] = p.returncode
        out["demo_patched_tail"] = (p.stdout + p.stderr).strip().splitlines()[-3:]
        if suite:
            t0 = time.time()
            xml = f"/tmp/verif_seed_suite_{os.getpid()}.xml"
            sh(["/venv/bin/python", "-m", "pytest", "-q", "-p", "no:cacheprovider", "--timeout=900", "--continue-on-collection-errors", f"--junitxml={xml}"], env=env, cwd=wt)
            import xml.etree.ElementTree as ET

            base = set(json.load(open("/root/.vp/BASELINE.json"))["stable_pass"])
            passed = set()
            for tc in ET.parse(xml).getroot().iter("testcase"):
                if not any(ch.tag in ("failure", "error", "skipped") for ch in tc):
                    passed.add(f"{tc.get('classname')}::{tc.get('name')}")
            missing = sorted(base - passed)
            out["suite_missing"] = missing[:10]
            out["suite_ok"] = not missing
            out["suite_s"] = round(time.time() - t0)
            os.remove(xml)
        out["checks"] = {}
        for prop in props:
            e2 = dict(env)
            if runs:
                e2["VERIF_RUNS"] = runs
            t0 = time.time()
            p = sh(["/venv/bin/python", "-m", "simverif", prop, "--tier", tier], cwd="/verif", env=e2, timeout=3600)
            if wt not in p.stdout:
                out["checks"][prop] = "ERROR: check did not import the scratch worktree"
                continue
            caught = p.returncode == 1 and "VIOLATION property=" in p.stdout
            lines = [l for l in p.stdout.splitlines() if l.startswith("violation:")]
            out["checks"][prop] = {
                "caught": caught,
                "exit": p.returncode,
                "wall_s": round(time.time() - t0),
                "violations": [l[:260] for l in lines[:4]],
            }
            if p.returncode == 2:
                out["checks"][prop]["tail"] = p.stdout[-800:]
    finally:
        sh(["git", "-C", "/repo", "worktree", "remove", "--force", wt])
        sh(["rm", "-rf", wt])
    print(json.dumps(out, indent=1))
    return 0


if __name__ == "__main__":
    sys.exit(main())
