"""Build-phase tool: re-evaluate every seeded change under /verif/seeded against the current
checks and the current /repo HEAD; writes /verif/seeded/RESULTS.json.
usage: python tools/reeval_seeded.py [id-prefix ...]"""
import json, os, subprocess, sys, time

root = "/verif/seeded"
want = sys.argv[1:]
ids = sorted(d for d in os.listdir(root) if os.path.isdir(os.path.join(root, d)) and (not want or any(d.startswith(w) for w in want)))
out_path = os.path.join(root, "RESULTS.json")
results = json.load(open(out_path)) if os.path.exists(out_path) else {}
head = subprocess.run(["git", "-C", "/repo", "rev-parse", "--short", "HEAD"], capture_output=True, text=True).stdout.strip()
vhead = subprocess.run(["git", "-C", "/verif", "rev-parse", "--short", "HEAD"], capture_output=True, text=True).stdout.strip()
for sid in ids:
    t0 = time.time()
    p = subprocess.run(["/venv/bin/python", "/verif/tools/seeded.py", os.path.join(root, sid)], capture_output=True, text=True, timeout=7200)
    txt = "\n".join(l for l in p.stdout.splitlines() if not l.startswith("WARNING"))
    try:
        d = json.loads(txt[txt.index("{"):])
    except Exception:  # noqa: BLE001
        results[sid] = {"error": (p.stdout + p.stderr)[-400:]}
        continue
    chk = next(iter(d.get("checks", {}).values()), {}) if isinstance(d.get("checks"), dict) else {}
    results[sid] = {
        "repo_head": head,
        "verif_head": vhead,
        "patch_applies": d.get("patch_applies"),
        "demo_exit_unpatched": d.get("demo_unpatched_exit"),
        "demo_exit_patched": d.get("demo_patched_exit"),
        "quick_check_caught": chk.get("caught") if isinstance(chk, dict) else None,
        "quick_check_exit": chk.get("exit") if isinstance(chk, dict) else None,
        "first_violation": (chk.get("violations") or [""])[0][:240] if isinstance(chk, dict) else str(chk)[:200],
        "wall_s": round(time.time() - t0),
    }
    json.dump(results, open(out_path, "w"), indent=1, sort_keys=True)
    print(sid, results[sid].get("quick_check_caught"), results[sid].get("demo_exit_patched"), results[sid]["wall_s"], "s", flush=True)
