"""
Build-phase tool: sweep the numeric-tweak / stratified single-fault space of C07 more
densely than the quick check does and print every distinct violation signature with
one example, to triage genuine escapes on the unchanged tree.

usage: python tools/c07_sweep.py [n_samples] [seed]
"""
import multiprocessing, os, random, sys, zlib
from collections import Counter
from concurrent.futures import ProcessPoolExecutor

sys.path.insert(0, os.path.dirname(os.path.dirname(os.path.abspath(__file__))))
from simverif.engines import streamsim as S  # noqa: E402
from simverif.kernel import Chooser  # noqa: E402

ENG = None


def task(recs):
    out = []
    for rec in recs:
        r = ENG.run(Chooser(record={"cfg": [list(rec)]}), True)
        for v in ([r.violation] if r.violation else []) + r.extra_violations:
            out.append((v.signature, rec, r.trace[0][:300] if r.trace else ""))
    return out


def main():
    global ENG
    n = int(sys.argv[1]) if len(sys.argv) > 1 else 100000
    seed = int(sys.argv[2]) if len(sys.argv) > 2 else 0
    ENG = S.StreamEngine()
    ENG.prepare("quick", seed)
    S._ENG = ENG
    corpus = S._CORPUS
    rng = random.Random(seed)
    recs = []
    small = [ci for ci, t in enumerate(corpus.w1) if len(t) <= S.ENUM_MAX_LEN]
    while len(recs) < n:
        ci = rng.choice(small)
        wl = rng.randrange(2)
        if len(corpus.text(wl, ci)) > S.ENUM_MAX_LEN:
            continue
        toks = corpus.tokens(wl, ci)
        if not toks:
            continue
        groups = corpus.by_kind(wl, ci)
        g = rng.choice(groups)
        ti = rng.choice(g)
        mode = rng.choice((1, 2, 3, 3))
        if mode == 3:
            recs.append((3, ci, ti, rng.randrange(len(S.NUM_TWEAKS)), wl))
        else:
            a, b, _ = toks[ti]
            recs.append((mode, ci, min(len(corpus.text(wl, ci)), a + rng.choice((0, 1, 2, 3, b - a - 1, b - a)) if b > a else a), wl))
    chunks = [recs[i : i + 400] for i in range(0, len(recs), 400)]
    sigs = Counter()
    ex = {}
    ctx = multiprocessing.get_context("fork")
    with ProcessPoolExecutor(max_workers=16, mp_context=ctx) as pool:
        for res in pool.map(task, chunks):
            for sig, rec, tr in res:
                sigs[sig] += 1
                ex.setdefault(sig, (rec, tr))
    for sig, c in sigs.most_common():
        print(c, sig)
        print("    ", ex[sig][0], ex[sig][1])
    print("total", len(recs), "violations", sum(sigs.values()))


if __name__ == "__main__":
    main()
