"""Build-phase tool: confirm that a seeded change passes the pinned suite.
usage: python tools/suite_confirm.py <seeded-id> [<seeded-id> ...]
For each /verif/seeded/<id>/patch.diff: scratch worktree of /repo HEAD under /tmp, apply,
run the pinned suite (pytest -n 8), compare with BASELINE.json stable_pass, write
suite_confirmed.json into the seeded directory, remove the worktree."""
import json, os, subprocess, sys, time
import xml.etree.ElementTree as ET

base = set(json.load(open("/root/.vp/BASELINE.json"))["stable_pass"])
for sid in sys.argv[1:]:
    d = f"/verif/seeded/{sid}"
    wt = f"/tmp/verif_suite_wt_{sid}"
    subprocess.run(["git", "-C", "/repo", "worktree", "remove", "--force", wt], capture_output=True)
    subprocess.run(["git", "-C", "/repo", "worktree", "add", "--detach", wt, "HEAD"], capture_output=True, check=True)
    try:
        a = subprocess.run(["git", "-C", wt, "apply", f"{d}/patch.diff"], capture_output=True, text=True)
        if a.returncode != 0:
            print(sid, "PATCH DOES NOT APPLY", a.stderr[:300])
            continue
        env = dict(os.environ, PYTHONPATH=wt, PYTHONDONTWRITEBYTECODE="1")
        xml = f"/tmp/verif_suite_{sid}.xml"
        t0 = time.time()
        subprocess.run(["nice", "-n", "10", "/venv/bin/python", "-m", "pytest", "-q", "-p", "no:cacheprovider", "-n", "8", "--timeout=900", "--continue-on-collection-errors", f"--junitxml={xml}"], env=env, cwd=wt, capture_output=True)
        passed = set()
        for tc in ET.parse(xml).getroot().iter("testcase"):
            if not any(ch.tag in ("failure", "error", "skipped") for ch in tc):
                passed.add(f"{tc.get('classname')}::{tc.get('name')}")
        missing = sorted(base - passed)
        out = {"id": sid, "repo_head": subprocess.run(["git", "-C", "/repo", "rev-parse", "--short", "HEAD"], capture_output=True, text=True).stdout.strip(), "stable_pass": len(base), "passed_with_patch": len(passed), "missing": missing[:20], "suite_ok": not missing, "wall_s": round(time.time() - t0)}
        json.dump(out, open(f"{d}/suite_confirmed.json", "w"), indent=1)
        print(sid, "suite_ok" if not missing else f"MISSING {len(missing)}: {missing[:5]}", out["wall_s"], "s", flush=True)
        os.remove(xml)
    finally:
        subprocess.run(["git", "-C", "/repo", "worktree", "remove", "--force", wt], capture_output=True)
        subprocess.run(["rm", "-rf", wt])
