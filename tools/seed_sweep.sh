#!/bin/bash
# Build-phase tool (not a check): run the quick tier of every claimed property under
# several VERIF_SEED values and print one line per (seed, property).  A non-zero exit on
# the unchanged tree is either a genuine defect or a false alarm to be worked out.
# usage: tools/seed_sweep.sh <first-seed> <last-seed> [props...]
cd "$(dirname "$0")/.."
first=${1:-1}; last=${2:-5}; shift 2
props=${@:-C12 C25 C01 C02 C11 C07}
export VERIF_EVIDENCE_DIR=${VERIF_EVIDENCE_DIR:-/tmp/verif_sweep_evidence}
mkdir -p "$VERIF_EVIDENCE_DIR"
for s in $(seq $first $last); do
  for p in $props; do
    out=$(VERIF_SEED=$s timeout 3000 /venv/bin/python -m simverif $p --tier quick 2>&1)
    rc=$?
    echo "seed=$s prop=$p exit=$rc :: $(echo "$out" | grep -E '^\[.*runs=' | tail -1)"
    if [ $rc -ne 0 ]; then echo "$out" | grep -vE '^\s' | cut -c1-600 | tail -12; fi
  done
done
