#!/bin/bash
# Build-phase tool: run the thorough tier of every claimed property once (background).
cd "$(dirname "$0")/.."
export VERIF_EVIDENCE_DIR=${VERIF_EVIDENCE_DIR:-/tmp/verif_thorough_evidence}
mkdir -p "$VERIF_EVIDENCE_DIR"
for p in ${@:-C12 C25 C01 C02 C11 C07}; do
  out=$(timeout 7200 /venv/bin/python -m simverif $p --tier thorough 2>&1); rc=$?
  echo "prop=$p exit=$rc :: $(echo "$out" | grep -E '^\[.*runs=' | tail -1)"
  echo "$out" | grep -E "^VIOLATION|^violation|^HARNESS|^KNOWN|note:" | cut -c1-400
done
