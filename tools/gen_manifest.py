"""Regenerate /verif/MANIFEST.json (kept in one place so that it stays schema-valid)."""

from __future__ import annotations

import json
import os
import sys

ROOT = os.path.dirname(os.path.dirname(os.path.abspath(__file__)))
PY = "/venv/bin/python"

CHECKS = {
    "C01": dict(
        engine="irsim",
        category="exploration",
        technique="deterministic simulation: seeded histories of public IR-mutation calls with injected failing calls and listener-callback faults, whole-universe invariant after every step, ddmin-minimised replay",
        text=(
            "Seeded search over histories (8-80 calls, quick; up to 240, thorough; ~70 call kinds incl. Rewriter / Builder / "
            "ImplicitBuilder / PatternRewriter / clone, tuple and single-pass generator arguments) on generated "
            "multi-tree IR; after every call the whole universe is walked and the C01 sentence is checked literally "
            "(forward/backward lists, parent pointers, exactly-once membership, use lists == operand/successor positions, "
            "arg/result indices); on every third call the public read API (iteration, reverse iteration, indexing, "
            "first/last, next/prev, parent accessors, uses, predecessors, walk orders) is compared with that walk. "
            "Sampled, not exhaustive: a clean batch is evidence, not proof."
        ),
        note=(
            "Trusted: the harness's own invariant walker and its bookkeeping of which objects a successful erase destroyed. "
            "Not issued: calls on erased objects, cycle-creating calls through APIs that do not check ancestry, negative operand indices. "
            "States left inconsistent by a call that *raised* end the run without verdict (the property skips raising calls)."
        ),
        design="3.1",
    ),
    "C02": dict(
        engine="irsim",
        category="exploration",
        technique="deterministic simulation: seeded clone-and-edit histories, independent canonical form as reference model, footprint-based isolation invariant after every later step",
        text=(
            "Same simulator as C01 with every clone entry point as history steps (clone_into into empty and populated "
            "destinations at every index; no, fresh, pre-seeded or caller-kept mapper dictionaries; clone_operands / "
            "clone_name_hints options). Oracle at the clone: independent canonical form of the copy equals that of the "
            "source part (outside references renamed as the caller's mappers ask), source and pre-existing destination "
            "blocks bit-identical, no shared objects/dicts, mappers send every inside value/block to its copy; afterwards "
            "every tree outside a call's footprint stays bit-identical; ModulePass.apply_to_clone leaves the original "
            "untouched - with a harness pass inside histories and, in one run of eight, with a registered pass (132 of "
            "133) on a filecheck corpus module. Sampled."
        ),
        note=(
            "Trusted: harness canonical form / snapshot (share no code with xDSL clone, printer or is_structurally_equivalent). "
            "Clone sources exclude IR whose successors point into another region of the cloned part (rejected by the generic verifier for every op). "
            "Name hints are not compared."
        ),
        design="3.2",
    ),
    "C07": dict(
        engine="streamsim",
        category="fault_enumeration",
        technique="deterministic simulation of a damaged input stream: enumerated single faults (EOF / lost byte at every offset; stratified numeric and type tweaks) plus seeded multi-fault sequences of 17 kinds and generated stress texts, deterministic step clock and CPU-time watchdog",
        text=(
            "The parser reads a simulated file whose stored bytes suffer truncation, lost/flipped/duplicated/reordered/torn spans. "
            "Single faults (EOF@k, drop@k) are enumerated over a seed-selected slice (quick) or all offsets (thorough) of the "
            "generic-form corpus, plus one representative per (token kind, offset, neighbour kinds) stratum and per numeric / "
            "type-spelling stratum; multi-fault sequences (17 kinds), generated token sequences and generated stress texts "
            "(alias DAGs, nesting, long lists, affine expressions, typed literals) are sampled. Outcome must be IR or "
            "ParseError/VerifyException; time is bounded by a replayable call-count clock proportional to input length plus "
            "a CPU watchdog for regex work. A violation that needs process history replays as the same input executed up to 4 times."
        ),
        note=(
            "Containment (no internal error) is judged on the generic-form corpus with a builtin-only context (the anchored files); "
            "dialect-specific custom parsers are exercised for promptness only and their escapes are listed, not judged. "
            "RecursionError/MemoryError are counted as inconclusive."
        ),
        design="3.3",
    ),
    "C11": dict(
        engine="drvsim",
        category="exploration",
        technique="deterministic simulation: real greedy driver with its worklist replaced by a seeded scheduler (any pop order, spurious wake-ups), generated IR x terminating pattern sets, per-match and end-of-walk oracles",
        text=(
            "PatternRewriteWalker runs unmodified except that walker._worklist is a seeded scheduler. Oracles: no pattern "
            "invocation on erased/detached ops, action flag set whenever a match changed the IR, every journalled "
            "insert/erase/replace/modify reported to every listener, return value true when the IR changed, and (recursive "
            "mode) re-applying the patterns to the final IR changes nothing; bounded number of pops. Sampled schedules."
        ),
        note="Trusted: harness pattern library (each pattern strictly decreases a measure), journal, snapshot diff. Notification loss is not injected.",
        design="3.4",
    ),
    "C12": dict(
        engine="dssim",
        category="exploration",
        technique="deterministic simulation (sequential reference-model core): seeded operation histories checked call by call against executable abstract models; no fault or schedule dimension exists for these containers",
        text=(
            "Seeded histories of <=60 calls on Worklist, IntDisjointSet, DisjointSet (incl. str()) and trees of ScopedDicts "
            "(incl. initial local scopes and the local_scope view); every return value and exception is compared with a "
            "trivial model (list without duplicates, partition with known representatives, chain of dicts). Exhaustive "
            "bounded enumeration is deliberately not done (that would be model checking)."
        ),
        note="Trusted: the three models. A class representative is assumed stable between unions.",
        design="3.5",
    ),
    "C25": dict(
        engine="solversim",
        category="exploration",
        technique="deterministic simulation: real dataflow solver with its FIFO replaced by a seeded scheduler (any pop order, duplicate deliveries, late boundary and block-executable events, analysis load order, solver reuse), result compared with a reference least fixpoint",
        text=(
            "DataFlowSolver/LivenessAnalysis/DeadCodeAnalysis run unmodified except that solver._worklist is a seeded "
            "scheduler whose pending items are canonically ordered (removing the address-dependent order of the shipped "
            "code); one solver analyses 1-3 roots (builtin.module or func.func with func.return) in sequence; boundary "
            "values and block-executable events may arrive late, items may be delivered twice; ops include instance-dependent "
            "effects (test.allocatable). For every value the lattice must equal a reference reachability fixpoint over the "
            "ops of executable blocks, hence be schedule independent; pops are bounded. Sampled schedules."
        ),
        note="Trusted: reference fixpoint (20 lines) and the removability predicate re-implemented from trait definitions. Enqueue loss is not injected.",
        design="3.6",
    ),
}

NA = {
    "C03": "pure predicate on a pair of IR trees: no schedule, clock, fault, stream or history for a simulator to control (DESIGN.md 5)",
    "C04": "pure function of a module (print then parse, single-shot, synchronous): input generation, not simulation (DESIGN.md 5)",
    "C05": "pure function of an op instance per registered op; needs per-dialect generators, no nondeterminism or fault to simulate (DESIGN.md 5)",
    "C06": "pure function of an attribute value (text round trip): nothing evolves, nothing can fail half-way (DESIGN.md 5)",
    "C08": "algebraic laws over immutable values: no history or interleaving (DESIGN.md 5)",
    "C09": "pure predicate on (constraint, attribute) against a reference evaluator (DESIGN.md 5)",
    "C10": "pure predicate on (op definition, op instance) (DESIGN.md 5)",
    "C13": "before/after differential execution of a deterministic pass run to completion by one caller; its driver-level scheduling is what C11 covers (DESIGN.md 5)",
    "C14": "differential execution over programs x inputs of deterministic passes; perturbing their order would test orders the shipped passes never take (DESIGN.md 5)",
    "C15": "pure function of (program, inputs) compared with reference semantics; narrow-width tables are enumeration, not simulation (DESIGN.md 5)",
    "C16": "differential execution before/after a deterministic lowering pass (DESIGN.md 5)",
    "C17": "cross product pass x module, each a pure run to completion; no fault the pass must survive (DESIGN.md 5)",
    "C18": "pure function of option values / of a command-line string (DESIGN.md 5)",
    "C19": "static check of a deterministic allocator's output on generated functions (DESIGN.md 5)",
    "C20": "exhaustive enumeration of small move graphs is model checking by the brief's definition; no schedule or fault (DESIGN.md 5)",
    "C21": "observation of real executions of assembled native code; nothing to schedule or fault (DESIGN.md 5)",
    "C22": "translation validation of a deterministic pipeline against an ISA model (DESIGN.md 5)",
    "C23": "translation validation against an external compiler (llvmlite) (DESIGN.md 5)",
    "C24": "pure function of a CFG; exhaustive small graphs would be enumeration (DESIGN.md 5)",
    "C26": "pure algebraic identities evaluated pointwise (DESIGN.md 5)",
    "C27": "differential test of two deterministic interpreters on one input (DESIGN.md 5)",
    "C28": "deterministic pipeline compared by execution; its internal set-iteration order has no seam and the property does not quantify over it (DESIGN.md 5)",
    "C29": "pure function of (module, reference, origin); no invalidation protocol in the property for a history to exercise (DESIGN.md 5)",
}


def main() -> int:
    sys.path.insert(0, ROOT)
    from simverif import engines  # noqa: F401
    from simverif.kernel import ENGINES

    checks = []
    for pid, c in sorted(CHECKS.items()):
        if pid not in ENGINES:
            continue
        checks.append(
            {
                "property_id": pid,
                "quick_cmd": f"{PY} -m simverif {pid} --tier quick",
                "thorough_cmd": f"{PY} -m simverif {pid} --tier thorough",
                "evidence_file": f"/verif/evidence/{pid}.json",
                "replay_cmd_template": f"{PY} -m simverif {pid} --replay {{path}}",
                "engine": c["engine"],
                "level_claimed": {"category": c["category"], "text": c["text"], "design_ref": f"DESIGN.md section {c['design']}"},
                "level_note": c["note"],
                "technique": c["technique"],
            }
        )
    engines_list = {}
    for pid, c in CHECKS.items():
        if pid in ENGINES:
            engines_list.setdefault(c["engine"], []).append(pid)
    na = dict(NA)
    for pid, c in CHECKS.items():
        if pid not in ENGINES:
            na[pid] = "check not built yet in this snapshot of /verif (claimed in DESIGN.md; will be added)"
    m = {
        "version": 1,
        "setup_cmd": f"{PY} -c \"import xdsl, sys; sys.path.insert(0, '/verif'); import simverif.engines\"",
        "hooks": {
            "guard": "XDSL_VERIF_SIM",
            "enable": "no source hook exists: every seam (walker._worklist, solver._worklist, listeners, parser input) is an attribute or argument substituted from the harness; checks import /repo's working tree directly (editable install in /venv)",
            "baseline_off_cmd": "cd /repo && /venv/bin/python -m pytest -ra -q -p no:cacheprovider --timeout=900 --continue-on-collection-errors",
            "source_commits": [],
            "add_only": True,
        },
        "engines": [
            {"name": n, "path": f"/verif/simverif/engines", "serves_properties": sorted(ps), "kind_free_text": "seeded deterministic simulator (own kernel: one PRNG per run, recorded choice streams, ddmin shrinker, replay files)"}
            for n, ps in sorted(engines_list.items())
        ],
        "checks": checks,
        "not_applicable": [{"property_id": k, "reason": v} for k, v in sorted(na.items())],
        "notes": "All checks: exit 0 = held on everything explored; exit 1 + 'VIOLATION property=<id> replay=<path>'; exit 2 = harness fault (nondeterminism, worker death, non-reproducing replay). VERIF_SEED selects the seed. Genuine defects repaired in /repo as 'fix:' commits are listed in known_findings.json.",
    }
    with open(os.path.join(ROOT, "MANIFEST.json"), "w") as f:
        json.dump(m, f, indent=1)
    print(f"MANIFEST.json: {len(checks)} checks, {len(m['not_applicable'])} not applicable")
    return 0


if __name__ == "__main__":
    sys.exit(main())
