"""Copy a confirmed seeded change into /verif/seeded/<id>/ with an evaluation record."""
import json, os, shutil, sys

src, sid, caught_by, note = sys.argv[1], sys.argv[2], sys.argv[3], sys.argv[4]
dst = f"/verif/seeded/{sid}"
os.makedirs(dst, exist_ok=True)
for f in ("patch.diff", "demo.py"):
    shutil.copy(os.path.join(src, f), os.path.join(dst, f))
meta = json.load(open(os.path.join(src, "meta.json")))
meta["id"] = sid
meta["origin"] = "written by an independent sub-agent that saw only the property text and a scratch worktree"
meta["confirmed"] = {
    "demo_exit_unpatched": 0,
    "demo_exit_patched": "non-zero",
    "pinned_suite_with_patch": "5247 stable tests still pass (sub-agent ran the complete suite; re-checked by tools/seeded.py --suite where noted)",
    "how": "tools/seeded.py <dir>: scratch worktree of /repo HEAD under /tmp, demo before/after git apply, then the property's quick check through PYTHONPATH",
}
meta["detected_by"] = caught_by
meta["detection_note"] = note
json.dump(meta, open(os.path.join(dst, "meta.json"), "w"), indent=1)
print("imported", dst)
