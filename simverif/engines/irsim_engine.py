"""
C01 / C02 -- seeded histories of public IR-mutation calls on a universe of IR trees
(DESIGN.md 3.0 - 3.2).

The "nodes" are the caller issuing API calls, the "faults" are calls whose arguments
violate a checked precondition (they raise, possibly after mutating) and listener
callbacks that raise between the sub-steps of a compound PatternRewriter edit.
"""

from __future__ import annotations

import zlib
from collections import Counter
from typing import Any

from xdsl.ir import Block, Operation, Region, SSAValue

from simverif.irsim import calls as C
from simverif.irsim.universe import (
    InvFail,
    Universe,
    canon,
    check_inv,
    check_queries,
    snap_all,
    snap_tree,
    struct_hash,
)
from simverif.kernel import (
    Chooser,
    Engine,
    HarnessError,
    RunResult,
    Violation,
    WatchdogTimeout,
    arm_watchdog,
    disarm_watchdog,
    register,
)

CALL_CPU_LIMIT_S = 4.0

GROUPS = sorted({g for _, g, _, _ in C.GENERATORS})
SIZE_CLASSES = (6, 12, 25, 50)
FAULT_RATES = ((0, 1), (1, 8), (1, 4), (1, 2))


class IrEngineBase(Engine):
    engine_name = "irsim"
    level = "exploration"
    shrink_order = ("hist", "cfg")
    mode = "C01"
    group_bias: dict[str, int] = {}
    long_histories = False
    judge_queries = False

    corpus: Any = None
    full_ctx: Any = None
    aux_failed = False

    def prepare(self, tier: str, seed: int) -> None:
        # thorough: histories of up to 240 calls (quick: up to 80)
        self.long_histories = tier == "thorough"
        if IrEngineBase.corpus is None and not IrEngineBase.aux_failed:
            import os

            from simverif.engines import streamsim

            # auxiliary workloads (corpus modules as starting IR, real passes): if the tree
            # under test is too broken to load its dialects or to parse its own test files,
            # the generated-IR histories - the core of the check - must still run
            try:
                _, IrEngineBase.full_ctx = streamsim._contexts()
                IrEngineBase.corpus = streamsim.build_corpus(min(16, os.cpu_count() or 1))
            except BaseException as e:  # noqa: BLE001
                if isinstance(e, KeyboardInterrupt):
                    raise
                IrEngineBase.corpus = None
                IrEngineBase.full_ctx = None
                IrEngineBase.aux_failed = True
                print(f"[{self.prop}] note: corpus / dialect loading failed ({type(e).__name__}); corpus-based workloads are skipped in this run, generated-IR histories run as usual")
            import gc

            gc.collect()
            gc.freeze()  # 80 loaded dialects: keep them out of later collections (see streamsim)

    # -- one run ------------------------------------------------------------
    def run(self, ch: Chooser, trace: bool) -> RunResult:
        cfg = ch.stream("cfg")
        h = ch.stream("hist")
        res = RunResult()
        st = res.stats
        tr: list[str] | None = [] if trace else None
        max_ops = SIZE_CLASSES[cfg.choice(len(SIZE_CLASSES))]
        n_steps = 8 + cfg.choice(233 if self.long_histories else 73)
        fr = FAULT_RATES[cfg.choice(len(FAULT_RATES))]
        gw: dict[str, int] = {}
        for gname in GROUPS:
            m = (0, 1, 1, 2, 4)[cfg.choice(5)]
            if gname == "create":
                m = max(m, 1)
            gw[gname] = m * self.group_bias.get(gname, 1)
        weights = [w * gw[grp] for _, grp, w, _ in C.GENERATORS]
        u = Universe()
        ok_calls = 0
        kinds: list[int] = []
        start = "generated"
        if IrEngineBase.corpus is not None and cfg.flag(1, 6):
            # "any starting IR": a module of the filecheck corpus (real dialect operations,
            # CFG and graph regions, properties) instead of generated test-dialect trees
            from xdsl.parser import Parser

            corpus = IrEngineBase.corpus
            ci = cfg.choice(len(corpus.w2))
            try:
                module = Parser(IrEngineBase.full_ctx.clone(), corpus.w2[ci]).parse_module()
                n_mod = sum(1 for _ in module.walk())
            except Exception:  # noqa: BLE001
                module, n_mod = None, 0
            if module is not None and n_mod <= 120:
                u.register(module)
                max_ops = max(max_ops, n_mod + 25)
                start = corpus.names[ci]
                st["initial.corpus_module"] += 1
        if start == "generated":
            C.build_initial(u, cfg)
        try:
            check_inv(u)
            if self.judge_queries:
                check_queries(u)
        except InvFail as e:
            res.violation = Violation(f"inv:{e.code}", "initial-build", 0, e.detail, f"inv:{e.code}:initial-build")
            res.trace = tr
            return res
        if tr is not None:
            tr.append(f"initial IR ({start}): {len(u.ops)} ops, {len(u.blocks)} blocks, {len(u.regions)} regions, {len(u.roots())} roots")
        st["initial_ops." + _bucket(len(u.ops))] += 1
        self.begin_run(u)
        for step in h.iter_steps(n_steps):
            faulty = bool(fr[0]) and h.flag(fr[0], fr[1])
            small = len(u.ops) < 3
            wts = [w * (4 if small and grp == "create" else 1) for w, (_, grp, _, _) in zip(weights, C.GENERATORS)]
            act = None
            gi = 0
            name = grp = ""
            for _attempt in range(4):
                gi = h.weighted(wts)
                name, grp, _, f = C.GENERATORS[gi]
                g = C.G(u, h, faulty, max_ops)
                act = f(g)
                if act is not None:
                    break
                st["skipped_no_args"] += 1
            if act is None:
                if tr is not None:
                    tr.append(f"{step}: skip ({name}: no suitable arguments)")
                continue
            act.group = grp
            doomed: list[Any] = []
            for k in act.kills:
                doomed.extend(u.closure(k))
            doomed.extend(act.kills_shallow)
            pre = self.before_call(u, act, st)
            ok = True
            exc = ""
            ret: Any = None
            try:
                arm_watchdog(CALL_CPU_LIMIT_S)
                try:
                    ret = act.fn()
                finally:
                    disarm_watchdog()
            except WatchdogTimeout:
                if tr is not None:
                    tr.append(f"{step}: {act.desc} -> did not return")
                res.violation = self.hang_violation(act, step)
                if tr is not None and res.violation is not None:
                    tr.append(f"VIOLATION hang in {act.name}")
                break
            except (RecursionError, MemoryError):
                st["inconclusive.resource_exhaustion"] += 1
                if tr is not None:
                    tr.append(f"{step}: {act.desc} -> resource exhaustion, run ends")
                break
            except Exception as e:  # noqa: BLE001 - "calls that raise are skipped"
                ok = False
                exc = type(e).__name__
            # register what the call returned / created
            for x in ret if isinstance(ret, (list, tuple)) else (ret,):
                if isinstance(x, (Operation, Block, Region)):
                    u.register(x)
            if ok:
                u.kill(doomed)
            if faulty:
                st["fault.invalid_argument_step"] += 1
            if act.listener_fault_at and exc == "ListenerFault":
                st["fault.listener_raised"] += 1
            try:
                check_inv(u)
                inv: InvFail | None = None
            except InvFail as e:
                inv = e
            if inv is None and ok and self.judge_queries and step % 3 == 2 and not u.has_cycle():
                # the public read API must show what the raw fields hold
                try:
                    st["reach.query_comparisons"] += check_queries(u, step)
                except InvFail as e:
                    inv = e
                except RecursionError:
                    st["inconclusive.resource_exhaustion"] += 1
                    break
            if u.has_cycle():
                st["ended.outside_domain_cycle"] += 1
                if tr is not None:
                    tr.append(f"{step}: {act.desc} -> containment cycle, outside domain")
                break
            if tr is not None:
                tr.append(f"{step}: {act.desc} -> {'ok' if ok else 'raise ' + exc}")
            if ok:
                ok_calls += 1
                kinds.append(gi)
                st[f"ok.{name}"] += 1
                if inv is not None:
                    v = self.inv_violation(inv, act, step)
                    if v is not None:
                        res.violation = v
                        if tr is not None:
                            tr.append(f"VIOLATION {v.oracle} after {act.name}: {v.detail}")
                    else:
                        st["ended.inv_broken_not_judged_here"] += 1
                    break
                v = self.after_call(u, act, pre, ret, step, st)
                if v is not None:
                    res.violation = v
                    if tr is not None:
                        tr.append(f"VIOLATION {v.oracle} after {act.name}: {v.detail}")
                    break
            else:
                st[f"raise.{name}"] += 1
                if inv is not None:
                    st[f"poisoned.{name}"] += 1
                    st["ended.poisoned_by_failed_call"] += 1
                    if tr is not None:
                        tr.append(f"   state left inconsistent by the failed call ({inv.code}); run ends (not a violation)")
                    break
                v = self.after_raise(u, act, pre, exc, step, st)
                if v is not None:
                    res.violation = v
                    if tr is not None:
                        tr.append(f"VIOLATION {v.oracle} after {act.name}: {v.detail}")
                    break
        res.steps = len(h.steps)
        res.nontrivial = ok_calls >= 5
        res.fingerprint = struct_hash(u) ^ (zlib.crc32(bytes(k % 256 for k in kinds)) << 16)
        st["universe_ops_at_end." + _bucket(len(u.ops))] += 1
        for a, b in zip(kinds, kinds[1:]):
            st[f"2g.{a}.{b}"] += 1
        res.trace = tr
        return res

    # -- hooks for subclasses --------------------------------------------------
    def begin_run(self, u: Universe) -> None:
        pass

    def before_call(self, u: Universe, act: C.Act, st: Counter[str]) -> Any:
        return None

    def after_call(self, u: Universe, act: C.Act, pre: Any, ret: Any, step: int, st: Counter[str]) -> Violation | None:
        return None

    def after_raise(self, u: Universe, act: C.Act, pre: Any, exc: str, step: int, st: Counter[str]) -> Violation | None:
        return None

    def hang_violation(self, act: C.Act, step: int) -> Violation | None:
        return Violation(
            "hang",
            act.name,
            step,
            f"the call did not return within {CALL_CPU_LIMIT_S} s of CPU time from a consistent state (typical < 1 ms)",
            f"hang:{act.name}",
        )

    def inv_violation(self, inv: InvFail, act: C.Act, step: int) -> Violation | None:
        return Violation(f"inv:{inv.code}", act.name, step, inv.detail, f"inv:{inv.code}:{act.name}")

    def components(self) -> dict[str, list[str]]:
        return {
            "real": [
                "xdsl.ir.core (Operation, Block, Region, SSAValue, Use lists, clone)",
                "xdsl.rewriter (Rewriter, InsertPoint, BlockInsertPoint)",
                "xdsl.builder.Builder",
                "xdsl.pattern_rewriter.PatternRewriter / PatternRewriterListener",
                "xdsl.dialects.test ops built with Operation.create",
            ],
            "simulated": ["the caller: seeded sequence of public calls, argument faults, listener-callback faults"],
            "stub": [],
        }

    def evidence_extra(self, stats: Counter[str], tier: str) -> dict[str, Any]:
        grams = sum(1 for k in stats if k.startswith("2g."))
        ok = {k[3:]: v for k, v in sorted(stats.items()) if k.startswith("ok.")}
        return {
            "successful_calls_by_kind": ok,
            "successful_calls_total": sum(ok.values()),
            "raised_calls_by_kind": {k[6:]: v for k, v in sorted(stats.items()) if k.startswith("raise.")},
            "runs_poisoned_by_failed_call_by_kind": {k[9:]: v for k, v in sorted(stats.items()) if k.startswith("poisoned.")},
            "faults_injected": {
                "steps_with_invalid_arguments": stats.get("fault.invalid_argument_step", 0),
                "calls_that_raised": sum(v for k, v in stats.items() if k.startswith("raise.")),
                "listener_callback_raised_inside_compound_edit": stats.get("fault.listener_raised", 0),
            },
            "distinct_interleavings_ordered_pairs_of_successful_call_kinds": grams,
            "run_endings": {k[6:]: v for k, v in sorted(stats.items()) if k.startswith("ended.")},
            "inconclusive": {k[13:]: v for k, v in sorted(stats.items()) if k.startswith("inconclusive.")},
            "universe_size_at_end": {k[20:]: v for k, v in sorted(stats.items()) if k.startswith("universe_ops_at_end.")},
            "histories_starting_from_a_corpus_module": stats.get("initial.corpus_module", 0),
            "reach_probes": {k[6:]: v for k, v in sorted(stats.items()) if k.startswith("reach.")},
            "schedule_dimension": "none: the API is synchronous and single-caller; the history order is the only interleaving",
        }


def _bucket(n: int) -> str:
    for b in (0, 2, 5, 10, 20, 40, 80):
        if n <= b:
            return f"le{b:02d}"
    return "gt80"


@register
class C01Engine(IrEngineBase):
    prop = "C01"
    mode = "C01"
    tiers = {
        "quick": {"runs": 60_000, "wall_cap_s": 300, "samples": 2},
        "thorough": {"runs": 1_500_000, "wall_cap_s": 1750, "samples": 2},
    }
    group_bias = {"clone": 1, "dictedit": 0}
    judge_queries = True

    def rule(self) -> str:
        return (
            "one case = one seeded history of 8-80 public IR-mutation calls (Block/Region/Operation/"
            "SSAValue API, Rewriter, PatternRewriter with listeners, clone) on a universe of test-dialect IR "
            "trees, whole-universe invariant walk after every call; non-trivial = at least 5 calls "
            "returned normally; distinct = distinct (final universe structure hash, sequence of successful call kinds)"
        )

    def assumptions(self) -> list[str]:
        return [
            "calls that raise are skipped; a state left inconsistent by a *failed* call ends the run without verdict",
            "never issued: calls on erased objects, calls that would create a containment cycle through APIs "
            "that do not check ancestry (add_region, move_blocks*, inline_*), drop_all_references on its own, "
            "negative operand indices, Rewriter.inline_block with the insertion point inside the source block",
            "stale sibling links of *detached* objects are not judged directly, only through later calls",
        ]


# ---------------------------------------------------------------------------
# C02
# ---------------------------------------------------------------------------


def _uses_of(x: Any) -> list[Any]:
    out = []
    use = x.first_use
    n = 0
    while use is not None and n < 100000:
        n += 1
        out.append(use)
        use = use._next_use
    return out


def _canon_op_shallow(u: Universe, op: Operation, ext_values: dict[int, Any] | None = None, ext_blocks: dict[int, Any] | None = None, drop_operands: bool = False) -> tuple[Any, ...]:
    own = {id(r): j for j, r in enumerate(op.results)}
    ev = ext_values or {}
    eb = ext_blocks or {}
    return (
        op.name,
        type(op).__name__,
        () if drop_operands else tuple(("self-res", own[id(v)]) if id(v) in own else ("ext", u.nm(ev.get(id(v), v))) for v in op._operands),
        tuple(r.type for r in op.results),
        tuple((k, op.attributes[k]) for k in sorted(op.attributes)),
        tuple((k, op.properties[k]) for k in sorted(op.properties)),
        getattr(op, "location", None),
        tuple(("ext", u.nm(eb.get(id(b), b))) for b in op._successors),
        len(op.regions),
    )


def _region_blocks(r: Region) -> list[Block]:
    out = []
    b = r._first_block
    n = 0
    while b is not None and n < 100000:
        n += 1
        out.append(b)
        b = b._next_block
    return out


@register
class C02Engine(IrEngineBase):
    prop = "C02"
    mode = "C02"
    tiers = {
        "quick": {"runs": 40_000, "wall_cap_s": 300, "samples": 2},
        "thorough": {"runs": 1_000_000, "wall_cap_s": 1750, "samples": 2},
    }
    group_bias = {"clone": 5, "dictedit": 2}

    passes: Any = None
    matched: Any = None

    def prepare(self, tier: str, seed: int) -> None:
        super().prepare(tier, seed)
        if C02Engine.passes is None and IrEngineBase.corpus is not None:
            from xdsl.transforms import get_all_passes

            names = sorted(n for n in get_all_passes() if n not in ("mlir-opt",))
            C02Engine.passes = [(n, get_all_passes()[n]) for n in names]
            # (pass index, corpus chunk) pairs where the chunk comes from the pass's own filecheck file
            m: list[tuple[int, int]] = []
            for pi, (n, _) in enumerate(C02Engine.passes):
                keys = {n, n.replace("-", "_")}
                for ci, cn in enumerate(C02Engine.corpus.names):
                    base = cn.rsplit("/", 1)[-1].split(".mlir")[0]
                    if base in keys or any(k in cn for k in keys if len(k) > 8):
                        m.append((pi, ci))
            C02Engine.matched = m

    def run(self, ch: Chooser, trace: bool) -> RunResult:
        cfg = ch.stream("cfg")
        if cfg.flag(1, 8) and C02Engine.passes is not None:
            return self._run_real_pass(cfg, trace)
        return super().run(ch, trace)

    def _run_real_pass(self, cfg: Any, trace: bool) -> RunResult:
        """Second workload: a *registered* pass applied through ModulePass.apply_to_clone to a
        module of the filecheck corpus (all dialects).  Judged: the original module is
        bit-identical afterwards, its use lists gained nothing (no op of the copy refers to
        a value or block of the original), and the returned module shares no object with
        it.  Whatever the pass itself does to the copy - including raising - is not judged."""
        import contextlib
        import io
        import warnings

        from xdsl.parser import Parser

        res = RunResult()
        st = res.stats
        tr: list[str] | None = [] if trace else None
        corpus = C02Engine.corpus
        st["workload.real_pass_apply_to_clone"] += 1
        k = cfg.weighted((4, 2, 2))
        if k == 0 and C02Engine.matched:
            pi, ci = C02Engine.matched[cfg.choice(len(C02Engine.matched))]
        elif k == 1:
            pi = [i for i, (n, _) in enumerate(C02Engine.passes) if n in ("dce", "cse", "canonicalize")][cfg.choice(3)]
            ci = cfg.choice(len(corpus.w2))
        else:
            pi = cfg.choice(len(C02Engine.passes))
            ci = cfg.choice(len(corpus.w2))
        pname, pfactory = C02Engine.passes[pi]
        if tr is not None:
            tr.append(f"real pass {pname}.apply_to_clone on corpus chunk {corpus.names[ci]}")
        res.trace = tr
        try:
            module = Parser(C02Engine.full_ctx.clone(), corpus.w2[ci]).parse_module()
            with warnings.catch_warnings():
                warnings.simplefilter("ignore")
                ps = pfactory()()
        except Exception:  # noqa: BLE001 - pass needs arguments / chunk does not parse: nothing to run
            st["real_pass.not_run"] += 1
            if tr is not None:
                tr.append("not run (pass needs arguments or chunk did not parse)")
            return res
        n_ops = sum(1 for _ in module.walk())
        if n_ops > 600:
            st["real_pass.skipped_too_large"] += 1
            return res
        u = Universe()
        u.register(module)
        try:
            check_inv(u)
        except InvFail:
            st["real_pass.not_run"] += 1
            return res
        snap = snap_tree(u, module)
        src_ids = {id(x) for x in u.closure(module)}
        ret: Any = None
        exc = ""
        try:
            arm_watchdog(20.0)
            try:
                with contextlib.redirect_stdout(io.StringIO()), contextlib.redirect_stderr(io.StringIO()), warnings.catch_warnings():
                    warnings.simplefilter("ignore")
                    ret = ps.apply_to_clone(C02Engine.full_ctx, module)
            finally:
                disarm_watchdog()
        except WatchdogTimeout:
            st["inconclusive.real_pass_slow"] += 1
            return res
        except (RecursionError, MemoryError):
            st["inconclusive.resource_exhaustion"] += 1
            return res
        except BaseException as e:  # noqa: BLE001 - a pass may reject the module (also via SystemExit)
            if isinstance(e, KeyboardInterrupt):
                raise
            exc = type(e).__name__
            st["real_pass.raised"] += 1
        call = "ModulePass.apply_to_clone"

        def bad(oracle: str, detail: str) -> RunResult:
            res.violation = Violation(oracle, call, 1, f"{detail} (pass {pname}, corpus chunk {corpus.names[ci]})", f"{oracle}:{call}:real:{pname}")
            if tr is not None:
                tr.append(f"VIOLATION {oracle}: {detail}")
            return res

        # (whether the pass returned or raised is counted, not logged: a pass may keep
        # process-global state, and the trace must be a function of the run alone)
        if snap_tree(u, module) != snap:
            return bad("clone-modified-source", "the original module is not identical to what it was before apply_to_clone")
        try:
            check_inv(u)
        except InvFail as e:
            return bad("clone-modified-source", f"after apply_to_clone the original module fails the structural invariant ({e.code}: {e.detail[:160]}): something outside it refers to its values or blocks")
        if not exc:
            new_mod = ret[1] if isinstance(ret, tuple) and len(ret) == 2 else None
            if not isinstance(new_mod, Operation) or new_mod is module:
                return bad("clone-result", "apply_to_clone did not return a new module")
            changed = False
            for x in new_mod.walk():
                if id(x) in src_ids:
                    return bad("clone-shares-object", f"operation {x.name} belongs to both the original module and the module returned by apply_to_clone")
                for v in x._operands:
                    if id(v) in src_ids:
                        return bad("clone-shares-object", f"an operand of {x.name} in the returned module is a value of the original module")
                for b in x._successors:
                    if id(b) in src_ids:
                        return bad("clone-shares-object", f"a successor of {x.name} in the returned module is a block of the original module")
            try:
                changed = canon(Universe(), new_mod) != canon(Universe(), module)
            except Exception:  # noqa: BLE001
                changed = True
            st["reach.real_pass_changed_the_copy" if changed else "reach.real_pass_left_the_copy_as_is"] += 1
            res.nontrivial = changed
        st["reach.real_pass_checked"] += 1
        res.steps = 1
        res.fingerprint = (pi << 20) ^ ci
        return res

    def begin_run(self, u: Universe) -> None:
        self._snaps = snap_all(u)

    # the C01 invariant is judged by the C01 check; here a broken INV is only a
    # violation when the step was a clone call (oracle (a) includes INV)
    def inv_violation(self, inv: InvFail, act: C.Act, step: int) -> Violation | None:
        if act.clone is not None:
            return Violation(f"clone-inv:{inv.code}", act.name, step, inv.detail, f"clone-inv:{inv.code}:{act.name}")
        return None

    def hang_violation(self, act: C.Act, step: int) -> Violation | None:
        if act.clone is not None:
            return super().hang_violation(act, step)
        return None

    def _footprint(self, u: Universe, act: C.Act) -> set[int]:
        roots: dict[int, Any] = {}
        for a in act.args:
            try:
                r = u.root_of(a)
            except InvFail:
                continue
            roots[id(r)] = r
        fp = set(roots)
        for r in roots.values():
            if u.is_dead(r):
                continue
            for x in u.closure(r):
                if isinstance(x, (SSAValue, Block)):
                    for use in _uses_of(x):
                        try:
                            fp.add(id(u.root_of(use._operation)))
                        except InvFail:
                            pass
        return fp

    def before_call(self, u: Universe, act: C.Act, st: Counter[str]) -> Any:
        pre: dict[str, Any] = {"fp": self._footprint(u, act)}
        spec = act.clone
        if spec is not None:
            src = spec.source
            pre["src_snap"] = snap_tree(u, src)
            pre["src_ids"] = {id(x) for x in u.closure(src)}
            # what the caller's mappers ask for: replacements of *outside* references
            vm0 = dict(spec.value_mapper) if spec.kind != "apply_to_clone" and spec.value_mapper is not None else {}
            bm0 = dict(spec.block_mapper) if spec.kind != "apply_to_clone" and spec.block_mapper is not None else {}
            inside = {id(r) for r in src.results} if spec.kind == "op.clone_without_regions" else pre["src_ids"]
            ext_v = {id(k): v for k, v in vm0.items() if id(k) not in inside}
            ext_b = {id(k): v for k, v in bm0.items() if id(k) not in inside}
            pre["vm0"], pre["bm0"], pre["inside"] = vm0, bm0, inside
            drop = not spec.clone_operands
            if ext_v or ext_b:
                st["reach.clone_with_preseeded_mapper"] += 1
            if drop:
                st["reach.clone_operands_false"] += 1
            if spec.kind == "op.clone_without_regions":
                pre["canon"] = _canon_op_shallow(u, src, ext_v, ext_b, drop)
            elif spec.kind == "apply_to_clone":
                pre["canon"] = canon(u, src)
            elif spec.kind == "op.clone":
                pre["canon"] = canon(u, src, ext_v, ext_b, drop)
            else:
                pre["canon"] = canon(u, _region_blocks(src), ext_v, ext_b, drop)
            if spec.dest is not None:
                old = _region_blocks(spec.dest)
                pre["dest_old"] = old
                pre["dest_old_snaps"] = [snap_tree(u, b) for b in old]
                if old:
                    st["reach.clone_into_nonempty_dest"] += 1
                    if spec.index is not None and 0 < spec.index < len(old):
                        st["reach.clone_into_middle_index"] += 1
            if any(len(_region_blocks(r)) > 1 for r in ([src] if isinstance(src, Region) else src.regions)):
                st["reach.clone_multiblock_region"] += 1
        return pre

    def _isolation(self, u: Universe, act: C.Act, pre: Any, step: int, st: Counter[str]) -> Violation | None:
        post = snap_all(u)
        fp = pre["fp"]
        checked = 0
        for rid, snap in self._snaps.items():
            if rid in fp:
                continue
            checked += 1
            if post.get(rid) != snap:
                name = snap[0][1] if snap else "?"
                return Violation(
                    "isolation",
                    act.name,
                    step,
                    f"tree rooted at {name} changed although no argument of the call lives in it and "
                    f"it uses nothing defined in the trees of the arguments"
                    + ("" if rid in post else " (it is no longer a root)"),
                    f"isolation:{act.name}",
                )
        if checked:
            st["reach.isolation_trees_checked"] += checked
        self._snaps = post
        return None

    def after_raise(self, u: Universe, act: C.Act, pre: Any, exc: str, step: int, st: Counter[str]) -> Violation | None:
        if act.clone is not None and act.clone.kind == "apply_to_clone":
            # the pass itself may legitimately reject the (arbitrary) IR; whatever
            # happens, the original module must be untouched
            st["reach.apply_to_clone_pass_raised"] += 1
            if snap_tree(u, act.clone.source) != pre["src_snap"]:
                return Violation("clone-modified-source", act.name, step, f"apply_to_clone raised {exc} and the original module {u.nm(act.clone.source)} was modified", f"clone-modified-source:{act.name}")
            return self._isolation(u, act, pre, step, st)
        if act.clone is not None:
            return Violation("clone-raised", act.name, step, f"clone call with valid arguments raised {exc}", f"clone-raised:{exc}:{act.name}")
        return self._isolation(u, act, pre, step, st)

    def after_call(self, u: Universe, act: C.Act, pre: Any, ret: Any, step: int, st: Counter[str]) -> Violation | None:
        spec = act.clone
        if spec is not None:
            v = self._clone_oracle(u, act, spec, pre, ret, step, st)
            if v is not None:
                return v
        return self._isolation(u, act, pre, step, st)

    def _clone_oracle(self, u: Universe, act: C.Act, spec: C.CloneSpec, pre: Any, ret: Any, step: int, st: Counter[str]) -> Violation | None:
        def bad(oracle: str, detail: str) -> Violation:
            return Violation(oracle, act.name, step, detail, f"{oracle}:{act.name}")

        src = spec.source
        if snap_tree(u, src) != pre["src_snap"]:
            return bad("clone-modified-source", f"the cloned {type(src).__name__} {u.nm(src)} is not identical to what it was before the call")
        if spec.kind == "apply_to_clone":
            ps = spec.value_mapper["pass"]  # type: ignore[index]
            new_mod = ret[1] if isinstance(ret, tuple) and len(ret) == 2 else None
            if not isinstance(new_mod, Operation) or new_mod is src or new_mod.parent is not None:
                return bad("clone-result", "apply_to_clone did not return a new detached module")
            if hasattr(ps, "received"):
                if ps.received is src:
                    return bad("clone-modified-source", "apply_to_clone applied the pass to the original module")
                if ps.received is not new_mod:
                    return bad("clone-result", "apply_to_clone returned a module other than the one the pass was applied to")
                if ps.canon_at_entry != pre["canon"]:
                    return bad("clone-not-equivalent", "the module handed to the pass is not equivalent to the original " + _first_diff(pre["canon"], ps.canon_at_entry))
            copy_objs = u.closure(new_mod)
            for x in copy_objs:
                if id(x) in pre["src_ids"]:
                    return bad("clone-shares-object", f"{u.nm(x)} belongs to both the original module and the module returned by apply_to_clone")
            src_dicts = {id(o.attributes) for o in u.closure(src) if isinstance(o, Operation)} | {id(o.properties) for o in u.closure(src) if isinstance(o, Operation)}
            for x in copy_objs:
                if isinstance(x, Operation) and (id(x.attributes) in src_dicts or id(x.properties) in src_dicts):
                    return bad("clone-shares-object", f"attribute/property dictionary of {u.nm(x)} is the very dictionary of an op of the original module")
            st["reach.apply_to_clone_checked"] += 1
            return None
        if spec.kind in ("op.clone", "op.clone_without_regions"):
            if not isinstance(ret, Operation) or ret is src or ret.parent is not None:
                return bad("clone-result", "clone did not return a new detached operation")
            copy_part: Any = ret
            got = _canon_op_shallow(u, ret) if spec.kind == "op.clone_without_regions" else canon(u, ret)
            if spec.kind == "op.clone_without_regions" and any(r._first_block is not None for r in ret.regions):
                return bad("clone-result", "clone_without_regions produced a non-empty region")
        elif spec.kind == "region.clone":
            if not isinstance(ret, Region) or ret is src or ret.parent is not None:
                return bad("clone-result", "Region.clone did not return a new detached region")
            copy_part = ret
            got = canon(u, _region_blocks(ret))
        else:
            dest = spec.dest
            assert dest is not None
            old: list[Block] = pre["dest_old"]
            now = _region_blocks(dest)
            n_new = len(pre["canon"][1])
            i = len(old) if spec.index is None else spec.index
            if len(now) != len(old) + n_new or any(a is not b for a, b in zip(now[:i], old[:i])) or any(a is not b for a, b in zip(now[i + n_new :], old[i:])):
                return bad(
                    "clone-dest-layout",
                    f"destination {u.nm(dest)} is {[u.nm(b) for b in now]}, expected old[:{i}] + {n_new} new blocks + old[{i}:] with old = {[u.nm(b) for b in old]}",
                )
            for b, s0 in zip(old, pre["dest_old_snaps"]):
                if snap_tree(u, b) != s0:
                    return bad("clone-modified-dest", f"block {u.nm(b)}, already present in the destination, was changed by clone_into")
            new_blocks = now[i : i + n_new]
            copy_part = new_blocks
            got = canon(u, new_blocks)
        if got != pre["canon"]:
            return bad("clone-not-equivalent", "canonical form of the copy differs from the canonical form of the source part " + _first_diff(pre["canon"], got))
        # independence: no shared mutable object between copy and source
        copy_objs = u.closure(copy_part) if not isinstance(copy_part, list) else [x for b in copy_part for x in u.closure(b)]
        for x in copy_objs:
            if id(x) in pre["src_ids"]:
                return bad("clone-shares-object", f"{u.nm(x)} belongs to both the source and the copy")
        src_dicts = {id(o.attributes) for o in u.closure(src) if isinstance(o, Operation)} | {id(o.properties) for o in u.closure(src) if isinstance(o, Operation)}
        for x in copy_objs:
            if isinstance(x, Operation) and (id(x.attributes) in src_dicts or id(x.properties) in src_dicts):
                return bad("clone-shares-object", f"attribute/property dictionary of {u.nm(x)} is the very dictionary of a source operation")
        # the mappers handed in by the caller: old -> new for everything inside the cloned
        # part, entries for outside keys untouched
        if spec.value_mapper is not None and spec.block_mapper is not None:
            if spec.kind == "op.clone_without_regions":
                old_objs: list[Any] = list(src.results)
                new_objs: list[Any] = list(ret.results)
            elif spec.kind == "op.clone":
                old_objs, new_objs = u.closure(src), u.closure(ret)
            else:
                old_objs = [x for b in _region_blocks(src) for x in u.closure(b)]
                new_objs = list(copy_objs)
            if len(old_objs) != len(new_objs):
                return bad("clone-not-equivalent", "the copy does not have the shape of the source part")
            for a, b in zip(old_objs, new_objs):
                m = spec.value_mapper if isinstance(a, SSAValue) else spec.block_mapper if isinstance(a, Block) else None
                if m is not None and m.get(a) is not b:
                    return bad("clone-mapper", f"after the call the caller's mapper sends {u.nm(a)} to {u.nm(m.get(a))}, its copy is {u.nm(b)}")
            for m, m0 in ((spec.value_mapper, pre["vm0"]), (spec.block_mapper, pre["bm0"])):
                for k, v in m0.items():
                    if id(k) not in pre["inside"] and m.get(k) is not v:
                        return bad("clone-mapper", f"the caller's mapper entry for {u.nm(k)} (outside the cloned part) was changed")
            st["reach.clone_mapper_checked"] += 1
        st["reach.clone_oracle_passed"] += 1
        if any(isinstance(x, Operation) and (any(not _inside(v, copy_objs) for v in x._operands)) for x in copy_objs):
            st["reach.clone_with_outside_operands"] += 1
        return None

    def evidence_extra(self, stats: Counter[str], tier: str) -> dict[str, Any]:
        d = super().evidence_extra(stats, tier)
        d["real_pass_workload"] = {k: v for k, v in sorted(stats.items()) if k.startswith("real_pass.") or k.startswith("workload.")}
        d["real_pass_workload"]["registered_passes_used"] = len(C02Engine.passes or [])
        d["real_pass_workload"]["(pass, own filecheck chunk) pairs"] = len(C02Engine.matched or [])
        return d

    def components(self) -> dict[str, list[str]]:
        c = super().components()
        c["real"] = c["real"] + [
            "xdsl.passes.ModulePass.apply_to_clone with every registered pass that has default arguments (132 of 133; mlir-opt excluded: external process) on filecheck corpus modules of all dialects",
        ]
        return c

    def rule(self) -> str:
        return (
            "(1 run in 8: one registered pass applied through apply_to_clone to one corpus module, original compared before/after) "
            "one case = one seeded history of 8-80 public IR calls in which about one step in five is a clone entry "
            "point (Operation.clone / clone_without_regions, Region.clone, Region.clone_into into empty or populated "
            "destinations at any index); at each clone: independent canonical form of copy == that of the source part, "
            "source and pre-existing destination blocks bit-identical, no shared objects; after every later call: every "
            "tree outside the call's footprint is bit-identical; non-trivial = at least 5 calls returned normally; "
            "distinct = distinct (final universe structure hash, sequence of successful call kinds)"
        )

    def assumptions(self) -> list[str]:
        return [
            "valid clone arguments exclude only: dest is the source region or nested inside it; out-of-range insert_index",
            "name hints are not part of equivalence (C04 owns them)",
            "the C01 invariant is judged by the C01 check; here a broken invariant ends the run unless the step was a clone",
            "footprint of a call = trees holding an argument + trees using a value/block defined in those trees; only trees outside are compared",
        ]


def _inside(v: Any, objs: list[Any]) -> bool:
    return any(v is x for x in objs)


def _first_diff(a: Any, b: Any, path: str = "") -> str:
    if type(a) is not type(b):
        return f"[at {path or 'root'}: {str(a)[:80]} vs {str(b)[:80]}]"
    if isinstance(a, tuple):
        if len(a) != len(b):
            return f"[at {path or 'root'}: length {len(a)} vs {len(b)}]"
        for i, (x, y) in enumerate(zip(a, b)):
            if x != y:
                return _first_diff(x, y, f"{path}/{i}")
        return ""
    return f"[at {path or 'root'}: {str(a)[:80]} vs {str(b)[:80]}]"
