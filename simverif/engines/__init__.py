"""Importing this package registers every engine with the kernel."""

from simverif.engines import dssim  # noqa: F401
from simverif.engines import irsim_engine  # noqa: F401
from simverif.engines import solversim  # noqa: F401
from simverif.engines import drvsim  # noqa: F401
from simverif.engines import streamsim  # noqa: F401
