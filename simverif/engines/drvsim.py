"""
C11 -- the real greedy rewrite driver under a seeded scheduler (DESIGN.md 3.4).

``walker._worklist`` is replaced by :class:`SchedWorklist` (same abstract contract as
``xdsl.utils.worklist.Worklist``: a set with push / pop / remove / bool) whose ``pop``
is decided by the run's PRNG, and which occasionally delivers a spurious wake-up
(pushes an op that is attached inside the region).  Everything else is the shipped
code: PatternRewriteWalker, PatternRewriter, GreedyRewritePatternApplier, Folder,
is_trivially_dead, region_dce.  The harness supplies generated IR, a library of
terminating patterns (each strictly decreases a non-negative measure) and the oracles
I1-I6.
"""

from __future__ import annotations

import random
import zlib
from collections import Counter
from typing import Any

from xdsl.context import Context
from xdsl.dialects import arith
from xdsl.dialects.builtin import Builtin, IntAttr, IntegerAttr, ModuleOp, i32, i64
from xdsl.dialects.test import TestOp, TestPureOp, TestTermOp
from xdsl.ir import Block, BlockArgument, Operation, OpResult, Region, SSAValue
from xdsl.pattern_rewriter import (
    GreedyRewritePatternApplier,
    PatternRewriter,
    PatternRewriterListener,
    PatternRewriteWalker,
    RewritePattern,
)
from xdsl.rewriter import BlockInsertPoint, InsertPoint
from xdsl.transforms.dead_code_elimination import region_dce

from simverif.irsim.universe import Universe, canon, snap_tree
from simverif.kernel import Chooser, Engine, HarnessError, RunResult, Stream, Violation, register

POLICIES = ("lifo", "fifo", "random", "oldest-of-3-newest", "defer-top")


class OracleStop(BaseException):
    """Raised by the observer to stop the walk at the first oracle failure
    (BaseException: the driver's ``except Exception`` must not wrap it)."""

    def __init__(self, v: Violation):
        self.v = v


# ---------------------------------------------------------------------------
# scheduler
# ---------------------------------------------------------------------------


from xdsl.utils.worklist import Worklist as _RealWorklist  # noqa: E402


class SchedWorklist(_RealWorklist[Any]):
    """The shipped ``Worklist`` with a seeded ``pop``: push / remove / bool (and whatever
    else the driver calls) are the real code and keep the real bookkeeping; ``pop`` takes
    *some* present item chosen by the policy - the last one through the real ``pop``, any
    other one through the real ``remove``.  Present items in push order are read from the
    worklist's own index map (insertion-ordered)."""

    def __init__(self, s: Stream | None, policy: str, dup_rate: int = 0, attached_ops=None, rng: random.Random | None = None):
        super().__init__()
        self.s = s
        self.policy = policy
        self.dup_rate = dup_rate
        self.attached_ops = attached_ops
        self.pops = 0
        self.dups = 0
        self.order: list[int] = []
        self.removed_while_pending = 0
        self.last_popped: Any = None
        self.rng = rng
        self.max_pops = 10**9
        self.max_dups = 10**9

    def present(self) -> list[Any]:
        m = getattr(self, "_map", None)
        if not isinstance(m, dict):
            raise HarnessError("xdsl.utils.worklist.Worklist has no '_map' dict any more: the scheduler seam must be adapted")
        return list(m)

    def remove(self, item: Any) -> None:
        m = getattr(self, "_map", None)
        if isinstance(m, dict) and item in m:
            self.removed_while_pending += 1
        super().remove(item)

    def _choice(self, n: int) -> int:
        if self.s is not None:
            return self.s.choice(n)
        assert self.rng is not None
        return self.rng.randrange(n)

    def pop(self) -> Any:
        items = self.present()
        if not items:
            return super().pop()  # raises IndexError like the shipped worklist
        if self.pops >= self.max_pops:
            raise _Spin()
        if self.s is not None:
            self.s.begin_step()
        # spurious wake-up: push an op that is currently attached inside the region
        if self.dup_rate and self.dups < self.max_dups and self.attached_ops is not None and self.s is not None and self.s.flag(1, self.dup_rate):
            cands = self.attached_ops()
            if cands:
                self.push(cands[self.s.choice(len(cands))])
                self.dups += 1
                items = self.present()
        n = len(items)
        pol = self.policy
        if pol == "lifo":
            i = n - 1
        elif pol == "fifo":
            i = 0
        elif pol == "random":
            i = self._choice(n)
        elif pol == "oldest-of-3-newest":
            i = n - 1 - self._choice(min(3, n))
        else:  # defer-top
            i = n - 2 if n >= 2 and self._choice(2) == 0 else n - 1
        if i == n - 1:
            item = super().pop()  # the shipped LIFO path
        else:
            item = items[i]
            super().remove(item)
        self.pops += 1
        self.order.append(i if pol != "lifo" else 0)
        self.last_popped = item
        return item


class _Spin(BaseException):
    pass


def _worklist_selftest() -> list[str]:
    """SchedWorklist(lifo) must behave exactly like the abstract worklist model (and so
    like the shipped Worklist); other policies must conserve items."""
    from xdsl.utils.worklist import Worklist

    fails: list[str] = []
    for seed in range(30):
        rng = random.Random(seed)
        pol = POLICIES[seed % len(POLICIES)]
        w = SchedWorklist(None, pol, rng=random.Random(seed))
        real: Worklist[Any] = Worklist()
        model: list[int] = []
        universe = [object() for _ in range(6)]
        for _ in range(300):
            k = rng.randrange(4)
            x = universe[rng.randrange(6)]
            if k == 0:
                w.push(x)
                real.push(x)
                if x not in model:
                    model.append(x)
            elif k == 1:
                w.remove(x)
                real.remove(x)
                if x in model:
                    model.remove(x)
            elif k == 2:
                if bool(w) != bool(model):
                    fails.append(f"SchedWorklist({pol}): bool mismatch")
            else:
                if not model:
                    try:
                        w.pop()
                        fails.append(f"SchedWorklist({pol}): pop on empty did not raise")
                    except IndexError:
                        pass
                    continue
                got = w.pop()
                if pol == "lifo":
                    exp = model.pop()
                    if got is not exp or real.pop() is not exp:
                        fails.append("SchedWorklist(lifo) differs from the worklist model / shipped Worklist")
                else:
                    if got not in model:
                        fails.append(f"SchedWorklist({pol}): popped an absent item")
                    else:
                        model.remove(got)
                        real.remove(got)
            if len(fails) > 3:
                return fails
    return fails


# ---------------------------------------------------------------------------
# pattern library (every pattern strictly decreases measure())
# ---------------------------------------------------------------------------


def _w(op: Operation) -> int:
    a = op.attributes.get("w")
    return a.data if isinstance(a, IntAttr) else 0


def _cnt(op: Operation, k: str) -> int:
    a = op.attributes.get(k)
    return a.data if isinstance(a, IntAttr) else 0


def measure(module: Operation) -> int:
    """A non-negative integer that every pattern application (and DCE, folding,
    region_dce) strictly decreases; only used for the bounded-progress oracle I6."""
    m = 0
    for op in module.walk():
        m += 4 * _w(op) + 2 + 3 * _cnt(op, "addarg") + 8 * _cnt(op, "newblock") + 4 * _cnt(op, "ruwi")
        if isinstance(op, arith.AddiOp):
            m += 2
        if "insu" in op.attributes and not (op.next_op is not None and "marker" in op.next_op.attributes):
            m += 3
        if "insd" in op.attributes and not (op.prev_op is not None and "marker2" in op.prev_op.attributes):
            m += 3
        if "rmo" in op.attributes:
            m += 3
        if "inlreg" in op.attributes and op.regions and op.regions[0].first_block is not None:
            m += 3
        for r in op.results:
            if r.type == i32:
                m += 1
        for reg in op.regions:
            for b in reg.blocks:
                m += 2 + 2 * len(b.args)
                for a in b.args:
                    if a.type == i32:
                        m += 1
                    if a.first_use is not None:
                        m += 1
        if "addarg2" in op.attributes and "droparg" not in op.attributes and op.regions and (fb := op.regions[0].first_block) is not None:
            m += 3 * max(0, 2 - len(fb.args))
    return m


class Journal:
    """What the patterns asked the rewriter to do during the current match."""

    def __init__(self) -> None:
        self.entries: list[tuple[str, Any]] = []
        self.enabled = True

    def add(self, kind: str, obj: Any) -> None:
        if self.enabled:
            self.entries.append((kind, obj))


def _users(v: SSAValue) -> list[Operation]:
    return [u.operation for u in v.uses]


class Lib:
    """Pattern implementations; they mutate only through the rewriter (or in place
    followed by notify_op_modified) and journal the events the rewriter owes."""

    def __init__(self, j: Journal, st: Counter[str]):
        self.j = j
        self.st = st

    # -- journalled rewriter calls -----------------------------------------
    def insert(self, rw: PatternRewriter, ops: list[Operation], ip: InsertPoint | None = None) -> None:
        for o in ops:
            self.j.add("insert", o)
        rw.insert(ops, ip)

    def erase(self, rw: PatternRewriter, op: Operation) -> None:
        self.j.add("remove", op)
        rw.erase(op)

    def replace(self, rw: PatternRewriter, op: Operation, new_ops: list[Operation], new_results: list[SSAValue | None] | None = None) -> None:
        for o in new_ops:
            self.j.add("insert", o)
        self.j.add("replace", op)
        res = new_results if new_results is not None else (list(new_ops[-1].results) if new_ops else [])
        for old, new in zip(op.results, res):
            if new is not old:
                for u in _users(old):
                    self.j.add("modify", u)
        self.j.add("remove", op)
        rw.replace(op, new_ops, new_results)

    def modified(self, rw: PatternRewriter, op: Operation) -> None:
        self.j.add("modify", op)
        rw.notify_op_modified(op)

    def rauw(self, rw: PatternRewriter, a: SSAValue, b: SSAValue) -> None:
        if a is not b:
            for u in _users(a):
                self.j.add("modify", u)
        rw.replace_all_uses_with(a, b)

    # -- patterns -------------------------------------------------------------
    def p_dec(self, op: Operation, rw: PatternRewriter) -> None:
        if "dec" in op.attributes and _w(op) > 0:
            op.attributes["w"] = IntAttr(_w(op) - 1)
            self.modified(rw, op)
            self.st["match.Dec"] += 1

    def p_expand(self, op: Operation, rw: PatternRewriter) -> None:
        if "expand" in op.attributes and _w(op) >= 2 and not op.regions and not op.successors and isinstance(op, (TestOp, TestPureOp)):
            w = _w(op) - 1
            keep = {k: v for k, v in op.attributes.items() if k in ("dec", "expand", "su", "fold")}
            n1 = type(op).create(operands=list(op.operands), result_types=[i32], attributes={**keep, "w": IntAttr(w // 2)})
            n2 = type(op).create(operands=[n1.results[0]], result_types=list(op.result_types), attributes={**keep, "w": IntAttr(w - w // 2)})
            self.replace(rw, op, [n1, n2])
            self.st["match.Expand"] += 1

    def p_fold(self, op: Operation, rw: PatternRewriter) -> None:
        if "fold" in op.attributes and len(op.results) == 1 and op.operands and op.operands[0].type == op.results[0].type and not op.regions:
            v = op.operands[0]
            if isinstance(v, OpResult) and v.op is op:
                return
            self.replace(rw, op, [], [v])
            self.st["match.FoldPair"] += 1

    def p_single_use(self, op: Operation, rw: PatternRewriter) -> None:
        if "su" in op.attributes and _w(op) > 0 and op.results and op.results[0].has_one_use():
            op.attributes["w"] = IntAttr(_w(op) - 1)
            self.modified(rw, op)
            self.st["match.SingleUse"] += 1

    def p_erase_other(self, op: Operation, rw: PatternRewriter) -> None:
        if "eo" in op.attributes and op.parent is not None:
            for y in op.parent.ops:
                if y is not op and "victim" in y.attributes and all(r.first_use is None for r in y.results):
                    self.erase(rw, y)
                    self.st["match.EraseOther"] += 1
                    return

    def p_replace_producer(self, op: Operation, rw: PatternRewriter) -> None:
        if "rp" in op.attributes and op.operands and isinstance(v := op.operands[0], OpResult):
            p = v.op
            if "victim2" in p.attributes and _w(p) > 0 and not p.regions and not p.successors and p.parent is not None:
                p2 = type(p).create(operands=list(p.operands), result_types=list(p.result_types), attributes={**p.attributes, "w": IntAttr(_w(p) - 1)})
                self.replace(rw, p, [p2])
                self.st["match.ReplaceProducer"] += 1

    def p_unwrap(self, op: Operation, rw: PatternRewriter) -> None:
        if "unwrap" in op.attributes and len(op.regions) == 1 and all(r.first_use is None for r in op.results):
            reg = op.regions[0]
            b = reg.first_block
            if b is None or b.next_block is not None or b.first_use is not None:
                return
            n = len(b.args)
            vals: list[SSAValue] = []
            if n:
                if len(op.operands) >= n and all(o.type == a.type for o, a in zip(op.operands, b.args)):
                    vals = list(op.operands[:n])
                elif any(a.first_use is not None for a in b.args):
                    return
            if vals:
                for a, val in zip(b.args, vals):
                    if a is not val:
                        for u in _users(a):
                            self.j.add("rewired", u)
            self.j.add("inline_block", b)
            rw.inline_block(b, InsertPoint.before(op), tuple(vals))
            self.erase(rw, op)
            self.st["match.Unwrap"] += 1

    def p_drop_arg(self, op: Operation, rw: PatternRewriter) -> None:
        if "droparg" in op.attributes and op.regions and (b := op.regions[0].first_block) is not None and b.args:
            a = b.args[-1]
            if a.first_use is not None:
                # step 1 (replace_all_uses_with only): forward the uses to an op result
                cand = [o for o in op.operands if o.type == a.type and isinstance(o, OpResult)]
                if not cand:
                    return
                self.rauw(rw, a, cand[0])
                self.st["match.DropArg.rauw"] += 1
                return
            # step 2 (erase_block_argument only)
            self.j.add("erase_arg", a)
            rw.erase_block_argument(a)
            self.st["match.DropArg"] += 1

    def p_add_arg(self, op: Operation, rw: PatternRewriter) -> None:
        k = _cnt(op, "addarg")
        if k > 0 and op.regions and (b := op.regions[0].first_block) is not None:
            rw.insert_block_argument(b, len(b.args) // 2, i64)
            op.attributes["addarg"] = IntAttr(k - 1)
            self.modified(rw, op)
            self.st["match.AddArg"] += 1

    def p_add_arg2(self, op: Operation, rw: PatternRewriter) -> None:
        # insert_block_argument only (no other rewriter call)
        if "addarg2" in op.attributes and "droparg" not in op.attributes and op.regions and (b := op.regions[0].first_block) is not None and len(b.args) < 2:
            rw.insert_block_argument(b, 0, i64)
            self.st["match.AddArg2"] += 1

    def p_insert_user(self, op: Operation, rw: PatternRewriter) -> None:
        # insert only (no other rewriter call): a marker op right after the matched op
        if "insu" in op.attributes and op.parent is not None and not (op.next_op is not None and "marker" in op.next_op.attributes):
            marker = TestOp.create(attributes={"marker": IntAttr(1)})
            self.insert(rw, [marker], InsertPoint.after(op))
            self.st["match.InsertUser"] += 1

    def p_insert_default(self, op: Operation, rw: PatternRewriter) -> None:
        # insert at the rewriter's *own* insertion point (the driver sets it before the matched op)
        if "insd" in op.attributes and op.parent is not None and not (op.prev_op is not None and "marker2" in op.prev_op.attributes):
            marker = TestOp.create(attributes={"marker2": IntAttr(1)})
            self.insert(rw, [marker])
            self.j.add("default_ip", (marker, op))
            self.st["match.InsertAtDefaultPoint"] += 1

    def p_replace_matched(self, op: Operation, rw: PatternRewriter) -> None:
        # the deprecated replace_matched_op: replaces whatever the rewriter is bound to
        if "rmo" in op.attributes and not op.regions and not op.successors and isinstance(op, (TestOp, TestPureOp)) and op.parent is not None:
            import warnings

            keep = {k: v for k, v in op.attributes.items() if k != "rmo"}
            n1 = type(op).create(operands=list(op.operands), result_types=list(op.result_types), attributes=keep)
            self.j.add("insert", n1)
            self.j.add("replace", op)
            for old, new in zip(op.results, n1.results):
                for u in _users(old):
                    self.j.add("modify", u)
            self.j.add("remove", op)
            with warnings.catch_warnings():
                warnings.simplefilter("ignore")
                rw.replace_matched_op([n1])
            self.st["match.ReplaceMatchedOp"] += 1

    def p_inline_region(self, op: Operation, rw: PatternRewriter) -> None:
        # inline_region only: the blocks of the op's region move behind the op's own block
        if "inlreg" in op.attributes and len(op.regions) == 1 and op.regions[0].first_block is not None and op.parent is not None and op.parent.parent is not None:
            self.j.add("inline_region", op)
            rw.inline_region(op.regions[0], BlockInsertPoint.after(op.parent))
            self.st["match.InlineRegion"] += 1

    def p_replace_none(self, op: Operation, rw: PatternRewriter) -> None:
        # replace(op, [], [None, ...]): results declared dead (allowed when they have no uses)
        if "rnone" in op.attributes and op.results and not op.regions and op.parent is not None and all(r.first_use is None for r in op.results):
            self.j.add("replace", op)
            self.j.add("remove", op)
            rw.replace(op, [], [None] * len(op.results))
            self.st["match.ReplaceByNone"] += 1

    def p_replace_none_unsafe(self, op: Operation, rw: PatternRewriter) -> None:
        # replace(op, [], [None...], safe_erase=False) while the results still have users,
        # then erase those users in the same match (they end with erased operands otherwise)
        if "rnu" in op.attributes and op.results and not op.regions and op.parent is not None:
            users: list[Operation] = []
            for r in op.results:
                for u in _users(r):
                    if all(u is not x for x in users):
                        users.append(u)
            if not users or any(u is op or u.regions or u.parent is None or any(x.first_use is not None for x in u.results) for u in users):
                return
            self.j.add("replace", op)
            for u in users:
                self.j.add("modify", u)
            self.j.add("remove", op)
            rw.replace(op, [], [None] * len(op.results), safe_erase=False)
            for u in users:
                self.erase(rw, u)
            self.st["match.ReplaceByNoneUnsafeThenEraseUsers"] += 1

    def p_hoist(self, op: Operation, rw: PatternRewriter) -> None:
        # inline_block only: move the body of a single-block, argument-free region before the op
        if "hoist" in op.attributes and len(op.regions) == 1:
            b = op.regions[0].first_block
            if b is None or b.next_block is not None or b.args or b.first_use is not None:
                return
            self.j.add("inline_block", b)
            rw.inline_block(b, InsertPoint.before(op))
            self.st["match.Hoist"] += 1

    def p_ruwi(self, op: Operation, rw: PatternRewriter) -> None:
        k = _cnt(op, "ruwi")
        if k > 0 and op.results and op.operands and op.operands[0].type == op.results[0].type and op.operands[0] is not op.results[0]:
            r, v = op.results[0], op.operands[0]
            # the in-place edit comes first, the (possibly empty) conditional replacement
            # last: a call that rewires nothing must not undo what the match already did
            op.attributes["ruwi"] = IntAttr(k - 1)
            self.modified(rw, op)
            sel = [u for u in r.uses if u.index % 2 == 0]
            for u in sel:
                self.j.add("modify", u.operation)
            rw.replace_uses_with_if(r, v, lambda use: use.index % 2 == 0)
            self.st["match.ReplaceUsesWithIf" + ("" if sel else ".nothing_selected")] += 1

    def p_retype(self, op: Operation, rw: PatternRewriter) -> None:
        if "retype" in op.attributes:
            for r in op.results:
                if r.type == i32:
                    for u in _users(r):
                        self.j.add("rewired", u)
                    self.j.add("modify", op)
                    rw.replace_value_with_new_type(r, i64)
                    self.st["match.Retype"] += 1
                    return
            if op.regions and (b := op.regions[0].first_block) is not None:
                for a in b.args:
                    if a.type == i32:
                        for u in _users(a):
                            self.j.add("rewired", u)
                        self.j.add("modify", op)
                        rw.replace_value_with_new_type(a, i64)
                        self.st["match.RetypeArg"] += 1
                        return

    def p_region_move(self, op: Operation, rw: PatternRewriter) -> None:
        if "rm" in op.attributes and _w(op) > 0 and len(op.regions) == 1 and op.regions[0].first_block is not None and not op.successors:
            new_region = rw.move_region_contents_to_new_regions(op.regions[0])
            w2 = type(op).create(
                operands=list(op.operands),
                result_types=list(op.result_types),
                attributes={**op.attributes, "w": IntAttr(_w(op) - 1)},
                regions=[new_region],
            )
            self.replace(rw, op, [w2])
            self.st["match.RegionMove"] += 1

    def p_new_block(self, op: Operation, rw: PatternRewriter) -> None:
        k = _cnt(op, "newblock")
        if k > 0 and op.regions:
            self.j.add("create_block", op)
            rw.create_block(BlockInsertPoint.at_end(op.regions[0]), [i32])
            t = TestTermOp.create()
            self.insert(rw, [t])
            op.attributes["newblock"] = IntAttr(k - 1)
            self.modified(rw, op)
            self.st["match.NewBlock"] += 1


PATTERN_NAMES = (
    "p_dec", "p_expand", "p_fold", "p_single_use", "p_erase_other", "p_replace_producer",
    "p_unwrap", "p_drop_arg", "p_add_arg", "p_retype", "p_region_move", "p_new_block",
    "p_add_arg2", "p_insert_user", "p_hoist", "p_ruwi", "p_insert_default", "p_replace_matched", "p_inline_region", "p_replace_none", "p_replace_none_unsafe",
)
FLAGS = ("dec", "expand", "fold", "su", "eo", "victim", "rp", "victim2", "unwrap", "droparg", "retype", "rm", "addarg2", "insu", "hoist", "insd", "rmo", "inlreg", "rnone", "rnu")


class FnPattern(RewritePattern):
    def __init__(self, fn):
        self.fn = fn

    def match_and_rewrite(self, op: Operation, rewriter: PatternRewriter, /):
        self.fn(op, rewriter)


# ---------------------------------------------------------------------------
# the engine
# ---------------------------------------------------------------------------


def _top(op: Operation) -> Any:
    cur: Any = op
    n = 0
    while cur.parent is not None and n < 10000:
        cur = cur.parent
        n += 1
    return cur


def _operand_map(module: Operation) -> dict[int, tuple[Operation, tuple[int, ...]]]:
    return {id(o): (o, tuple(id(v) for v in o._operands)) for o in module.walk()}


@register
class DriverEngine(Engine):
    prop = "C11"
    engine_name = "drvsim"
    level = "exploration"
    tiers = {
        "quick": {"runs": 30_000, "wall_cap_s": 300, "samples": 2},
        "thorough": {"runs": 900_000, "wall_cap_s": 1750, "samples": 2},
    }
    shrink_order = ("ir", "sched", "cfg")
    no_delete = ("cfg",)

    known_sigs: frozenset[str] = frozenset()
    corpus: Any = None
    full_ctx: Any = None
    aux_failed = False

    def prepare(self, tier: str, seed: int) -> None:
        from simverif.engines import streamsim
        from simverif.kernel import load_known_findings

        self.known_sigs = frozenset(load_known_findings(self.prop))
        if DriverEngine.corpus is None and not DriverEngine.aux_failed:
            import os

            # auxiliary workload (real canonicalization on corpus modules): optional, see irsim
            try:
                _, DriverEngine.full_ctx = streamsim._contexts()
                DriverEngine.corpus = streamsim.build_corpus(min(16, os.cpu_count() or 1))
            except BaseException as e:  # noqa: BLE001
                if isinstance(e, KeyboardInterrupt):
                    raise
                DriverEngine.corpus = None
                DriverEngine.aux_failed = True
                print(f"[C11] note: corpus / dialect loading failed ({type(e).__name__}); the real-canonicalization workload is skipped in this run")
            import gc

            gc.collect()
            gc.freeze()  # 80 loaded dialects: keep them out of later collections (see streamsim)

    # -- second workload: the shipped canonicalization patterns on corpus modules ----
    def _run_real(self, cfg: Stream, sch: Stream, res: RunResult, tr: list[str] | None) -> None:
        """The real `canonicalize` pattern set (folding, region_dce as post-walk function,
        exactly as CanonicalizePass builds it) on a module of the filecheck corpus, under
        a seeded schedule.  Judged: I1 (no stale visit), I4 (return value), I5 (fixpoint).
        Not judged: whatever the dialect patterns themselves do (they are not the driver);
        a pattern that raises ends the run without verdict."""
        from xdsl.parser import Parser
        from xdsl.transforms.canonicalize import CanonicalizationRewritePattern

        st = res.stats
        corpus = DriverEngine.corpus
        ci = cfg.choice(len(corpus.w2))
        policy = POLICIES[cfg.choice(len(POLICIES))]
        dup_rate = (0, 6, 3)[cfg.choice(3)]
        walk_regions_first = bool(cfg.choice(2))
        walk_reverse = bool(cfg.choice(2))
        post = not cfg.flag(1, 4)
        st["workload.real_canonicalize"] += 1
        try:
            module = Parser(DriverEngine.full_ctx.clone(), corpus.w2[ci]).parse_module()
        except Exception:  # noqa: BLE001
            st["real.parse_failed"] += 1
            res.trace = tr
            return
        n0 = sum(1 for _ in module.walk())
        if n0 > 400:
            st["real.skipped_too_large"] += 1
            res.trace = tr
            return
        u = Universe()
        u.register(module)
        ctx = DriverEngine.full_ctx

        def mk() -> GreedyRewritePatternApplier:
            return GreedyRewritePatternApplier([CanonicalizationRewritePattern()], ctx=ctx, folding_enabled=True)

        inner = mk()

        class Observer(RewritePattern):
            def match_and_rewrite(self, op: Operation, rewriter: PatternRewriter, /):
                if op is not module and (op.parent is None or _top(op) is not module):
                    raise OracleStop(Violation("I1-stale-visit", "PatternRewriteWalker", wl.pops, f"pattern invoked on {u.nm(op)} ({op.name}) which is not attached to the rewritten module (real canonicalization patterns, corpus chunk {corpus.names[ci]})", "I1-stale-visit"))
                inner.match_and_rewrite(op, rewriter)

        def attached_ops() -> list[Operation]:
            return [o for o in module.walk() if o is not module]

        wl = SchedWorklist(sch, policy, dup_rate, attached_ops)
        wl.max_pops = 3000 * (n0 + 20)
        wl.max_dups = 4 * n0 + 20
        walker = PatternRewriteWalker(
            Observer(), walk_regions_first=walk_regions_first, walk_reverse=walk_reverse, post_walk_func=region_dce if post else None
        )
        walker._worklist = wl  # type: ignore[assignment]
        if tr is not None:
            tr.append(f"real canonicalize on {corpus.names[ci]} ({n0} ops) regions_first={walk_regions_first} reverse={walk_reverse} post_walk={'region_dce' if post else None} policy={policy} dup=1/{dup_rate}")
        canon_before = canon(u, module)
        viol: Violation | None = None
        ret = None
        try:
            ret = walker.rewrite_region(module.body)
        except OracleStop as e:
            viol = e.v
        except _Spin:
            st["real.not_judged.no_convergence_within_bound"] += 1
        except RecursionError:
            st["inconclusive.recursion"] += 1
        except Exception as e:  # noqa: BLE001
            lp = wl.last_popped
            if isinstance(lp, Operation) and lp is not module and (lp.parent is None or _top(lp) is not module):
                viol = Violation("I1-stale-visit", "PatternRewriteWalker", wl.pops, f"driver popped {u.nm(lp)} ({lp.name}), which is erased/detached, and raised {type(e).__name__} (real canonicalization patterns, corpus chunk {corpus.names[ci]})", "I1-stale-visit")
            else:
                st["real.not_judged.pattern_raised"] += 1
        if viol is None and ret is not None:
            try:
                changed = canon(u, module) != canon_before
            except Exception:  # noqa: BLE001
                changed = False
            if changed and ret is not True:
                viol = Violation("I4-return-value", "PatternRewriteWalker.rewrite_region", wl.pops, f"the IR changed but rewrite_region returned False (real canonicalization patterns, {corpus.names[ci]})", "I4-return-value")
            if viol is None:
                applier = mk()
                for op in list(module.walk()):
                    if op is module or op.parent is None:
                        continue
                    before = snap_tree(u, module)
                    rw = PatternRewriter(op)
                    try:
                        applier.match_and_rewrite(op, rw)
                    except Exception:  # noqa: BLE001
                        st["real.not_judged.pattern_raised_in_probe"] += 1
                        break
                    if rw.has_done_action or snap_tree(u, module) != before:
                        viol = Violation(
                            "I5-fixpoint",
                            "PatternRewriteWalker.rewrite_region",
                            wl.pops,
                            f"after the recursive walk returned, canonicalization still rewrites {u.nm(op)} ({op.name}) of corpus chunk {corpus.names[ci]}",
                            "I5-fixpoint:real:" + op.name,
                        )
                        break
                else:
                    st["reach.real_fixpoint_probe_passed"] += 1
        if tr is not None:
            tr.append(f"pops={wl.pops} dups={wl.dups} returned={ret}")
            if viol is not None:
                tr.append(f"VIOLATION {viol.oracle}: {viol.detail}")
        if viol is not None and viol.signature in self.known_sigs:
            res.extra_violations.append(viol)
            viol = None
        res.violation = viol
        res.steps = wl.pops
        st[f"policy.{policy}"] += 1
        st["pops"] += wl.pops
        st["fault.spurious_wakeup"] += wl.dups
        if ret:
            st["reach.real_walk_modified_ir"] += 1
        res.nontrivial = bool(ret)
        res.fingerprint = zlib.crc32(repr((cfg.steps, sch.steps)).encode())
        res.schedule_fp = zlib.crc32(repr(wl.order).encode()) ^ (len(wl.order) << 20)
        res.trace = tr

    def selftests(self) -> list[str]:
        return _worklist_selftest()

    # -- IR generation --------------------------------------------------------
    def _gen_ir(self, ir: Stream, n_ops: int, use_arith: bool, flag_density: int) -> ModuleOp:
        body = Block()
        module = ModuleOp(Region([body]))
        stack: list[Block] = [body]
        vis: list[list[SSAValue]] = [[]]
        consts: list[SSAValue] = []
        for _ in ir.iter_steps(n_ops):
            act = ir.weighted((6, 2, 2, 1))
            if act == 2 and len(stack) > 1:
                stack.pop()
                vis.pop()
            if act == 3 and len(stack) > 1:
                cur = stack[-1]
                reg = cur.parent
                assert reg is not None
                nb = Block(arg_types=[i32] * ir.choice(2))
                reg.add_block(nb)
                cur.add_op(TestTermOp.create(successors=[nb]))
                stack[-1] = nb
                vis[-1] = list(nb.args)
            visible = [v for lvl in vis for v in lvl]
            if use_arith and ir.flag(1, 3):
                # operands are drawn from the values *visible* at this point only (a use of
                # a constant nested in a sibling region would be invalid IR: erasing the
                # enclosing op would then legitimately leave a dangling producer)
                i32vals = [v for v in visible if v.type == i32]
                if ir.flag(1, 2) or len(consts) < 2 or not i32vals:
                    op: Operation = arith.ConstantOp(IntegerAttr(ir.choice(4), i32))
                    consts.append(op.results[0])
                else:
                    a = i32vals[ir.choice(len(i32vals))]
                    b = i32vals[ir.choice(len(i32vals))]
                    op = arith.AddiOp(a, b)
                stack[-1].add_op(op)
                vis[-1].extend(op.results)
                if isinstance(op, arith.ConstantOp):
                    pass
                continue
            cls = (TestPureOp, TestOp)[ir.weighted((3, 2))]
            k = min(len(visible), ir.weighted((2, 4, 3, 1)))
            operands = [visible[ir.choice(len(visible))] for _ in range(k)]
            nres = ir.weighted((2, 5, 2))
            attrs: dict[str, Any] = {"w": IntAttr(ir.choice(4))}
            for f in FLAGS:
                if ir.flag(1, flag_density):
                    attrs[f] = IntAttr(1)
            if ir.flag(1, 8):
                attrs["addarg"] = IntAttr(1 + ir.choice(2))
            if ir.flag(1, 10):
                attrs["newblock"] = IntAttr(1)
            if ir.flag(1, 8):
                attrs["ruwi"] = IntAttr(1 + ir.choice(2))
            regions: list[Region] = []
            inner: Block | None = None
            if act == 1 and len(stack) < 4:
                inner = Block(arg_types=[i32] * ir.weighted((3, 2, 1)))
                regions = [Region([inner])]
            op = cls.create(operands=operands, result_types=[i32] * nres, attributes=attrs, regions=regions)
            stack[-1].add_op(op)
            vis[-1].extend(op.results)
            if inner is not None:
                stack.append(inner)
                vis.append(list(inner.args))
        return module

    # -- one run --------------------------------------------------------------
    def run(self, ch: Chooser, trace: bool) -> RunResult:
        cfg = ch.stream("cfg")
        ir = ch.stream("ir")
        sch = ch.stream("sched")
        res = RunResult()
        st = res.stats
        tr: list[str] | None = [] if trace else None

        if cfg.flag(1, 6) and DriverEngine.corpus is not None:
            self._run_real(cfg, sch, res, tr)
            return res
        n_ops = 2 + cfg.choice(40)
        use_arith = cfg.flag(1, 4)
        flag_density = (2, 3, 5)[cfg.choice(3)]
        module = self._gen_ir(ir, n_ops, use_arith, flag_density)

        walk_regions_first = bool(cfg.choice(2))
        walk_reverse = bool(cfg.choice(2))
        recursive = not cfg.flag(1, 4)
        post = cfg.flag(1, 3)
        dce_enabled = bool(cfg.choice(2))
        folding = use_arith and bool(cfg.choice(2))
        n_listeners = cfg.weighted((1, 3, 2))
        policy = POLICIES[cfg.choice(len(POLICIES))]
        dup_rate = (0, 6, 3)[cfg.choice(3)]
        enabled = [n for n in PATTERN_NAMES if cfg.flag(1, 2)]
        # pattern order is part of the configuration
        order = list(enabled)
        for i in range(len(order) - 1, 0, -1):
            j = cfg.choice(i + 1)
            order[i], order[j] = order[j], order[i]

        u = Universe()
        u.register(module)
        journal = Journal()
        lib = Lib(journal, st)
        ctx = Context()
        ctx.load_dialect(Builtin)
        ctx.load_dialect(arith.Arith)

        def mk_applier(lb: Lib) -> GreedyRewritePatternApplier:
            return GreedyRewritePatternApplier(
                [FnPattern(getattr(lb, n)) for n in order], ctx, folding_enabled=folding, dce_enabled=dce_enabled
            )

        inner = mk_applier(lib)
        logs: list[list[tuple[str, Any]]] = [[] for _ in range(n_listeners)]

        def mk_listener(k: int) -> PatternRewriterListener:
            log = logs[k]
            return PatternRewriterListener(
                operation_insertion_handler=[lambda o: log.append(("insert", o))],
                block_creation_handler=[lambda b: log.append(("create_block", b))],
                operation_removal_handler=[lambda o: log.append(("remove", o))],
                operation_modification_handler=[lambda o: log.append(("modify", o))],
                operation_replacement_handler=[lambda o, r: log.append(("replace", o))],
            )

        listener = PatternRewriterListener()
        if n_listeners >= 1:
            listener = mk_listener(0)
        if n_listeners >= 2:
            listener.extend_from_listener(mk_listener(1))

        engine = self
        state = {"matches": 0}
        known_seen: set[str] = set()

        class Observer(RewritePattern):
            def match_and_rewrite(self, op: Operation, rewriter: PatternRewriter, /):
                state["matches"] += 1
                # I1: never invoked on an erased / detached op
                if op is not module and (op.parent is None or _top(op) is not module):
                    raise OracleStop(
                        Violation("I1-stale-visit", "PatternRewriteWalker", wl.pops, f"pattern invoked on {u.nm(op)} ({op.name}) which is not attached to the rewritten module", "I1-stale-visit")
                    )
                # I1b: the rewriter handed to the pattern is bound to this operation
                if rewriter.current_operation is not op:
                    raise OracleStop(
                        Violation("I1-rewriter-binding", "PatternRewriteWalker", wl.pops, f"pattern invoked on {u.nm(op)} with a rewriter whose current_operation is {u.nm(rewriter.current_operation)}", "I1-rewriter-binding")
                    )
                before = snap_tree(u, module)
                opmap = _operand_map(module)
                journal.entries.clear()
                marks = [len(lg) for lg in logs]
                inner.match_and_rewrite(op, rewriter)
                after = snap_tree(u, module)
                changed = before != after
                if tr is not None and (changed or rewriter.has_done_action):
                    tr.append(f"  match on {u.nm(op)}: changed={changed} has_done_action={rewriter.has_done_action} journal={[(k, u.nm(o)) for k, o in journal.entries]}")
                for kk, oo in journal.entries:
                    if kk == "default_ip":
                        mk, at = oo
                        if mk.next_op is not at or mk.parent is not at.parent:
                            raise OracleStop(
                                Violation("I1-rewriter-binding", "PatternRewriteWalker", wl.pops, f"an op inserted at the rewriter's own insertion point during the match on {u.nm(at)} did not land right before it (insertion point left over from another match)", "I1-rewriter-binding:insertion-point")
                            )
                # I2: the action flag is set whenever the match mutated the IR
                if changed and not rewriter.has_done_action:
                    raise OracleStop(Violation("I2-action-flag", "PatternRewriter", wl.pops, f"match on {u.nm(op)} changed the IR but has_done_action is False", "I2-action-flag"))
                # I3: every listener got every event the rewriter owes
                owed: list[tuple[str, Any]] = [(k, o) for k, o in journal.entries if k in ("insert", "remove", "replace", "modify")]
                owed += [("create_block", None) for k, o in journal.entries if k == "create_block"]
                # derived from the diff, independent of the journal: every surviving op
                # whose operand tuple changed during the match was modified in place
                now = _operand_map(module)
                for oid, (o, tup) in now.items():
                    if oid in opmap and opmap[oid][1] != tup:
                        owed.append(("modify", o))
                for li, lg in enumerate(logs):
                    got = lg[marks[li] :]
                    for kind, obj in owed:
                        ok = any(g[0] == kind and (obj is None or g[1] is obj) for g in got)
                        if not ok:
                            meth = engine._method_for(journal, kind, obj)
                            sig = f"I3-notification:{kind}:{meth}"
                            if sig in engine.known_sigs:
                                # a listed known finding: record it, keep checking the rest of the walk
                                if sig not in known_seen:
                                    known_seen.add(sig)
                                    res.extra_violations.append(
                                        Violation("I3-notification", meth, wl.pops, f"no '{kind}' event for a user rewired by {meth}", sig)
                                    )
                                continue
                            raise OracleStop(
                                Violation(
                                    "I3-notification",
                                    meth,
                                    wl.pops,
                                    f"listener {li} received no '{kind}' event for {u.nm(obj) if obj is not None else 'the new block'} during the match on {u.nm(op)} "
                                    f"(journal {[(k, u.nm(o)) for k, o in journal.entries]})",
                                    f"I3-notification:{kind}:{meth}",
                                )
                            )

        def attached_ops() -> list[Operation]:
            return [o for o in module.walk() if o is not module]

        wl = SchedWorklist(sch, policy, dup_rate, attached_ops)
        m0 = measure(module)
        n0 = sum(1 for _ in module.walk())
        wl.max_pops = (m0 + 3) * (6 * (n0 + m0) + 16) + 64
        wl.max_dups = n0 + m0
        walker = PatternRewriteWalker(
            Observer(),
            walk_regions_first=walk_regions_first,
            apply_recursively=recursive,
            walk_reverse=walk_reverse,
            post_walk_func=region_dce if post else None,
            listener=listener,
        )
        walker._worklist = wl  # type: ignore[assignment]  # the seam (no hook needed)
        if tr is not None:
            tr.append(
                f"ir: {n0} ops, measure {m0}; patterns {order}; regions_first={walk_regions_first} reverse={walk_reverse} recursive={recursive} "
                f"post_walk={'region_dce' if post else None} dce={dce_enabled} folding={folding} listeners={n_listeners} policy={policy} dup=1/{dup_rate}"
            )
            tr.append("   " + str(module).replace("\n", "\n   "))
        canon_before = canon(u, module)
        viol: Violation | None = None
        ret = None
        try:
            ret = walker.rewrite_region(module.body)
        except OracleStop as e:
            viol = e.v
        except _Spin:
            viol = Violation("I6-bounded-progress", "PatternRewriteWalker", wl.pops, f"more than {wl.max_pops} pops for initial measure {m0}, {n0} ops: the driver spins", "I6-bounded-progress")
        except RecursionError:
            st["inconclusive.recursion"] += 1
        except Exception as e:  # noqa: BLE001
            lp = wl.last_popped
            if isinstance(lp, Operation) and lp is not module and (lp.parent is None or _top(lp) is not module):
                viol = Violation(
                    "I1-stale-visit",
                    "PatternRewriteWalker",
                    wl.pops,
                    f"driver popped {u.nm(lp)} ({lp.name}), which is erased/detached, and raised {type(e).__name__}",
                    "I1-stale-visit",
                )
            else:
                import traceback as _tb

                fr = [f for f in _tb.extract_tb(e.__traceback__) if "/xdsl/" in f.filename]
                where = fr[-1].name if fr else "?"
                # (the message is not logged: it may contain object addresses)
                viol = Violation("driver-raised", "PatternRewriteWalker", wl.pops, f"{type(e).__name__} raised in {where} escaped rewrite_region", f"driver-raised:{type(e).__name__}:{where}")
        if viol is None and ret is not None:
            canon_after = canon(u, module)
            # I4: reports a modification whenever the IR changed
            if canon_after != canon_before and ret is not True:
                viol = Violation("I4-return-value", "PatternRewriteWalker.rewrite_region", wl.pops, "the IR changed but rewrite_region returned False", "I4-return-value")
            if viol is None and recursive:
                viol = self._fixpoint(u, module, mk_applier, dce_enabled, st, wl.pops)
        if tr is not None:
            tr.append(f"pops={wl.pops} dups={wl.dups} matches={state['matches']} returned={ret}")
            if viol is not None:
                tr.append(f"VIOLATION {viol.oracle}: {viol.detail}")
        res.violation = viol
        res.steps = wl.pops
        st[f"policy.{policy}"] += 1
        st["pops"] += wl.pops
        st["fault.spurious_wakeup"] += wl.dups
        st["reach.removed_while_pending"] += wl.removed_while_pending
        st[f"cfg.recursive={recursive}"] += 1
        st[f"cfg.regions_first={walk_regions_first},reverse={walk_reverse}"] += 1
        if post:
            st["cfg.post_walk=region_dce"] += 1
        if ret:
            st["reach.walk_modified_ir"] += 1
        if wl.pops > 3 * n0:
            st["reach.pops_gt_3x_ops"] += 1
        res.nontrivial = bool(ret) and wl.pops > n0
        res.fingerprint = zlib.crc32(repr((cfg.steps, ir.steps, sch.steps)).encode())
        res.schedule_fp = zlib.crc32(repr(wl.order).encode()) ^ (len(wl.order) << 20)
        res.trace = tr
        return res

    @staticmethod
    def _method_for(journal: Journal, kind: str, obj: Any) -> str:
        """Name the rewriter method responsible for a missing event (for the signature)."""
        names = [k for k, _ in journal.entries]
        if kind == "modify":
            if any(k == "rewired" and o is obj for k, o in journal.entries):
                if "inline_block" in names:
                    return "PatternRewriter.inline_block"
                return "PatternRewriter.replace_value_with_new_type"
            if "replace" in names:
                return "PatternRewriter.replace"
            if "erase_arg" in names:
                return "PatternRewriter.erase_block_argument"
            return "PatternRewriter.notify_op_modified/replace_all_uses_with"
        return {
            "insert": "PatternRewriter.insert",
            "remove": "PatternRewriter.erase",
            "replace": "PatternRewriter.replace",
            "create_block": "PatternRewriter.create_block",
        }.get(kind, "PatternRewriter")

    def _fixpoint(self, u: Universe, module: ModuleOp, mk_applier, dce_enabled: bool, st: Counter[str], pops: int) -> Violation | None:
        """I5: offer every op of the final IR to the same patterns once more."""
        from xdsl.transforms.dead_code_elimination import is_trivially_dead  # noqa: F401

        probe_journal = Journal()
        probe_journal.enabled = False
        applier = mk_applier(Lib(probe_journal, Counter()))
        for op in list(module.walk()):
            if op is module:
                continue
            before = snap_tree(u, module)
            rw = PatternRewriter(op)
            try:
                applier.match_and_rewrite(op, rw)
            except Exception as e:  # noqa: BLE001
                raise HarnessError(f"pattern raised during fixpoint probe: {type(e).__name__}: {e}")
            if rw.has_done_action or snap_tree(u, module) != before:
                return Violation(
                    "I5-fixpoint",
                    "PatternRewriteWalker.rewrite_region",
                    pops,
                    f"after the recursive walk returned, a pattern still rewrites {u.nm(op)} ({op.name}, attrs {sorted(op.attributes)})",
                    "I5-fixpoint",
                )
        st["reach.fixpoint_probe_passed"] += 1
        return None

    def rule(self) -> str:
        return (
            "one case = one generated module (2-41 ops, nesting <= 3, multi-block regions, optional arith constants/adds) x one "
            "ordered subset of 21 terminating patterns x one walker configuration x one seeded worklist schedule "
            "(pop policy, spurious wake-ups); oracles I1-I6 evaluated per match and at the end; non-trivial = the walk modified "
            "the IR and popped more items than there were ops; distinct = distinct (config, IR, schedule) choice sequences"
        )

    def assumptions(self) -> list[str]:
        return [
            "patterns mutate only through the rewriter or in place followed by notify_op_modified; none erases an op that still has users",
            "notification loss is not injected; any pop order and spurious pushes of attached ops are",
            "I3 demands exactly: the events documented for each rewriter method the pattern called, plus a modification event for every surviving op whose operand tuple changed during the match",
        ]

    def components(self) -> dict[str, list[str]]:
        return {
            "real": [
                "xdsl.pattern_rewriter.PatternRewriteWalker (rewrite_region, _populate_worklist, _process_worklist, _handle_*)",
                "xdsl.pattern_rewriter.PatternRewriter / GreedyRewritePatternApplier / PatternRewriterListener",
                "xdsl.folder.Folder (arith), xdsl.transforms.dead_code_elimination (is_trivially_dead, region_dce)",
                "xdsl.builder.Builder, xdsl.rewriter.Rewriter",
                "second workload: xdsl.transforms.canonicalize.CanonicalizationRewritePattern with every dialect's canonicalization patterns on filecheck corpus modules",
            ],
            "simulated": ["the pop order of walker._worklist: SchedWorklist subclasses the shipped xdsl.utils.worklist.Worklist (push / remove / bool and the LIFO pop are the real code) and overrides pop with a seeded choice among the present items, plus spurious wake-ups"],
            "stub": ["first workload: rewrite patterns are harness patterns (the property quantifies over terminating pattern sets)"],
        }

    def evidence_extra(self, stats: Counter[str], tier: str) -> dict[str, Any]:
        return {
            "faults_injected": {
                "spurious_wakeup (duplicate delivery)": stats.get("fault.spurious_wakeup", 0),
                "pop_order_perturbation_runs": sum(v for k, v in stats.items() if k.startswith("policy.") and k != "policy.lifo"),
            },
            "runs_by_policy": {k[7:]: v for k, v in sorted(stats.items()) if k.startswith("policy.")},
            "walker_configurations": {k[4:]: v for k, v in sorted(stats.items()) if k.startswith("cfg.")},
            "pattern_matches": {k[6:]: v for k, v in sorted(stats.items()) if k.startswith("match.")},
            "real_canonicalize_workload": {k: v for k, v in sorted(stats.items()) if k.startswith("real.") or k.startswith("workload.")},
            "total_pops": stats.get("pops", 0),
            "reach_probes": {k[6:]: v for k, v in sorted(stats.items()) if k.startswith("reach.")},
            "inconclusive": {k[13:]: v for k, v in sorted(stats.items()) if k.startswith("inconclusive.")},
        }
