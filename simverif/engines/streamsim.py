"""
C07 -- the parser fed from a simulated, damaged file (DESIGN.md 3.3).

The simulated disk holds a corpus chunk; the fault sequence of the run damages it
(EOF / short read, lost bytes, flipped bytes, re-delivered spans, reordered spans, torn
writes mixing two chunks at a sector boundary, foreign spans, CRLF conversion, BOM,
UTF-8 cut).  The process is ``Parser(ctx, text).parse_module()`` followed by
``verify()``.  Two clocks: a deterministic step clock (``sys.monitoring`` PY_START
events, replayable) and a CPU-time watchdog (ITIMER_VIRTUAL) for work inside C code
(the regex engine), which only ever classifies hang / no hang.

Workloads: W1 "core" = every filecheck chunk that parses and verifies, re-printed in
generic form and parsed with a builtin-only context (exactly the anchored files);
W2 "full" = the original chunks with every dialect registered (custom syntax).
Containment (no internal error) is judged on W1; promptness on both.
"""

from __future__ import annotations

import glob
import hashlib
import io
import json
import multiprocessing
import os
import resource
import sys
import time
import zlib
from collections import Counter
from concurrent.futures import ProcessPoolExecutor
from typing import Any

from simverif.kernel import (
    VERIF_DIR,
    Chooser,
    Engine,
    HarnessError,
    RunResult,
    Stream,
    Violation,
    WatchdogTimeout,
    arm_watchdog,
    disarm_watchdog,
    load_known_findings,
    merge_stats,
    register,
)

import xdsl as _xdsl  # noqa: E402

REPO = os.path.dirname(os.path.dirname(os.path.abspath(_xdsl.__file__)))
CACHE_DIR = os.path.join(VERIF_DIR, ".cache")
STEP_K = 1500  # step budget = STEP_K * (len(text) + 64) PY_START events; see calibrate()
CPU_BASE_S = 1.5
CPU_PER_CHAR_S = 0.0005
ENUM_MAX_LEN = 8192
ENUM_SLICES = 128
FLIP_ALPHABET = "(){}[]<>%^#!@:,=-+*?|\"0x9.e\\ \n\t\x00é中²١\x0b\x0c'/~`\u00a0\u2028\u3000\u0085\x1c\x1f\u200b\ufeff\r"
FAULT_KINDS = ("eof", "drop", "flip", "dup", "swap", "torn", "splice", "crlf", "bom", "utf8cut", "insert", "stutter", "tokrepl", "tokdel", "tokdup", "numtweak", "typetweak")


# boundary spellings of numbers, incl. lengths around Python's int <-> str conversion limit
# (4300 decimal digits; 3571 hexadecimal digits are the largest value below 10**4300)
_LONG_NUMS = ("9" * 4300, "9" * 4301, "0x" + "F" * 3571, "0x" + "F" * 3572, "0x" + "F" * 4300, "0x" + "F" * 4301)
NUM_TWEAKS = ("-1", "-9", "0", "-0", "99999999999", "18446744073709551616", "007", "1e3", "0x", "0x1p3", "-", "1.", ".5", "4294967296") + _LONG_NUMS


def num_tweak(text: str, a: int, b: int, tw: int) -> tuple[str, str]:
    """Replace the first digit run inside text[a:b] (or the whole token if it has none)
    by a boundary spelling."""
    import re

    m = re.search(r"[0-9]+", text[a:b])
    rep = NUM_TWEAKS[tw % len(NUM_TWEAKS)]
    if m is None:
        return text[:a] + rep + text[b:], f"numtweak[{a},{b}) <- {(rep if len(rep) < 40 else rep[:6] + '...(' + str(len(rep)) + ' chars)')!r} (whole token)"
    return text[: a + m.start()] + rep + text[a + m.end() :], f"numtweak[{a + m.start()},{a + m.end()}) <- {(rep if len(rep) < 40 else rep[:6] + '...(' + str(len(rep)) + ' chars)')!r}"


TYPE_TWEAKS = (
    "i0", "i1", "i7", "i64", "i65", "i128", "i4096", "i16777215", "i16777216", "si8", "ui1", "si128",
    "f16", "bf16", "f32", "f64", "f80", "f128", "tf32", "f8E4M3FN", "f8E5M2", "f4E2M1FN", "f6E3M2FN", "f8E8M0FNU", "f0",
    "index", "none", "complex<f80>", "complex<i1>", "complex<index>", "tuple<>", "vector<2xf80>", "tensor<1xi128>",
    "memref<?xf128>", "!unknown.type", "tensor<*xf32>", "vector<[4]xi1>", "(i32) -> f80",
)
_TYPE_TOKEN_RE = None


def _type_token_span(text: str, a: int, b: int) -> tuple[int, int] | None:
    """If text[a:b] spells (or ends with) a builtin scalar type - `i32`, `f64`, `index`,
    `xf32` as in `2xf32` - the span of that type spelling."""
    global _TYPE_TOKEN_RE
    import re

    if _TYPE_TOKEN_RE is None:
        _TYPE_TOKEN_RE = re.compile(r"(?:^|(?<=x))((?:[su]?i[0-9]+)|(?:f[0-9]+[A-Za-z0-9]*)|bf16|tf32|index)$")
    m = _TYPE_TOKEN_RE.search(text[a:b])
    if m is None:
        return None
    return a + m.start(1), a + m.end(1)


def type_tweak(text: str, a: int, b: int, tw: int) -> tuple[str, str]:
    rep = TYPE_TWEAKS[tw % len(TYPE_TWEAKS)]
    sp = _type_token_span(text, a, b) or (a, b)
    return text[: sp[0]] + rep + text[sp[1] :], f"typetweak[{sp[0]},{sp[1]}) {text[sp[0]:sp[1]][:16]!r} <- {rep!r}"


class StepBudgetExceeded(BaseException):
    pass


# ---------------------------------------------------------------------------
# corpus
# ---------------------------------------------------------------------------


_CTX_CACHE: dict[bool, Any] = {}


def _contexts(eager: bool = True):
    """(builtin-only context, context with every dialect registered).  ``eager`` loads
    all 80 dialects up front (4-5 s once per process, before any worker is forked) so that
    no dialect *import* ever happens inside a timed parse: a first use of e.g. the x86
    dialect costs > 10**5 Python calls, which a 46-character input would be blamed for,
    and which made outcomes depend on what the process had parsed before."""
    if eager in _CTX_CACHE:
        return _CTX_CACHE[eager]
    from xdsl.context import Context
    from xdsl.dialects import get_all_dialects
    from xdsl.dialects.builtin import Builtin

    full = Context(allow_unregistered=True)
    for n, f in get_all_dialects().items():
        full.register_dialect(n, f)
    if eager:
        for n in list(full.registered_dialect_names):
            full.load_registered_dialect(n)
    core = Context(allow_unregistered=True)
    core.load_dialect(Builtin)
    _CTX_CACHE[eager] = (core, full)
    return core, full


_LAZY_FULL: Any = None


def _lazy_full():
    """A context with every dialect *registered but not loaded* (what xdsl-opt starts from).
    It is never parsed with itself: every parse gets a clone, which loads the dialects it
    meets; the dialect modules are already imported (``_contexts(eager=True)`` ran first),
    so a lazy load costs a few thousand calls, not an import."""
    global _LAZY_FULL
    if _LAZY_FULL is None:
        from xdsl.context import Context
        from xdsl.dialects import get_all_dialects

        _contexts(True)
        _LAZY_FULL = Context(allow_unregistered=True)
        for n, f in get_all_dialects().items():
            _LAZY_FULL.register_dialect(n, f)
    return _LAZY_FULL


def _repo_fingerprint() -> str:
    h = hashlib.sha256()
    files = sorted(glob.glob(f"{REPO}/tests/filecheck/**/*.mlir", recursive=True)) + sorted(
        glob.glob(f"{REPO}/xdsl/**/*.py", recursive=True)
    )
    for f in files:
        h.update(f.encode())
        with open(f, "rb") as fh:
            h.update(hashlib.sha256(fh.read()).digest())
    h.update(sys.version.encode())
    h.update(b"corpus-rules-v2")  # bump when the inclusion rule of _build_file changes
    return h.hexdigest()[:20]


def _build_file(path: str) -> list[tuple[str, int, str, str]]:
    """(file, chunk index, generic text, original text) for every good chunk of a file."""
    from xdsl.parser import Parser
    from xdsl.printer import Printer

    core, full = _contexts(eager=False)
    out: list[tuple[str, int, str, str]] = []
    try:
        text = open(path, encoding="utf-8").read()
    except Exception:  # noqa: BLE001
        return out
    for ci, chunk in enumerate(text.split("// -----")):
        if not chunk.strip():
            continue
        # whether a chunk belongs to the corpus must be a function of the tree alone: the
        # size limit is a count of Python calls (deterministic), the CPU watchdog is only a
        # backstop far above it (a chunk near a CPU-time limit would be in the corpus of
        # one process and not of another, and every later choice would shift)
        _mon_init()
        mon = sys.monitoring
        _clock["n"] = 0
        _clock["budget"] = 3_000_000
        try:
            arm_watchdog(120.0)
            mon.set_events(_TOOL, mon.events.PY_START)
            try:
                m = Parser(full, chunk).parse_module()
                m.verify()
                s = io.StringIO()
                Printer(stream=s, print_generic_format=True).print_op(m)
                g = s.getvalue()
                m2 = Parser(core, g).parse_module()
                m2.verify()
            finally:
                mon.set_events(_TOOL, 0)
                disarm_watchdog()
        except BaseException:  # noqa: BLE001 - anything that is not a clean chunk is skipped
            mon.set_events(_TOOL, 0)
            disarm_watchdog()
            continue
        out.append((os.path.relpath(path, REPO), ci, g, chunk))
    return out


class Corpus:
    def __init__(self, items: list[tuple[str, int, str, str]]):
        self.names = [f"{f}#{ci}" for f, ci, _, _ in items]
        self.w1 = [g for _, _, g, _ in items]
        self.w2 = [o for _, _, _, o in items]
        self._tokens: dict[tuple[int, int], list[tuple[int, int, str]]] = {}
        self._by_kind: dict[tuple[int, int], list[list[int]]] = {}

    def text(self, wl: int, i: int) -> str:
        return (self.w1 if wl == 0 else self.w2)[i]

    def tokens(self, wl: int, i: int) -> list[tuple[int, int, str]]:
        """(start, end, kind) of every token, used only to bias fault positions and
        for reach probes (falls back to nothing if the lexer fails)."""
        key = (wl, i)
        t = self._tokens.get(key)
        if t is None:
            from xdsl.utils.lexer import Input
            from xdsl.utils.mlir_lexer import MLIRLexer, MLIRTokenKind

            t = []
            try:
                lx = MLIRLexer(Input(self.text(wl, i), "<corpus>"))
                for _ in range(200000):
                    tok = lx.lex()
                    if tok.kind == MLIRTokenKind.EOF:
                        break
                    kind = tok.kind.name
                    if kind == "INTEGER_LIT" and tok.span.text[:2] in ("0x", "0X"):
                        kind = "HEX_INTEGER_LIT"
                    elif kind == "FLOAT_LIT" and ("e" in tok.span.text or "E" in tok.span.text):
                        kind = "EXP_FLOAT_LIT"
                    elif kind == "STRING_LIT" and "\\" in tok.span.text:
                        kind = "ESCAPED_STRING_LIT"
                    t.append((tok.span.start, tok.span.end, kind))
            except BaseException:  # noqa: BLE001
                pass
            self._tokens[key] = t
        return t

    def by_kind(self, wl: int, i: int) -> list[list[int]]:
        """Token indices grouped by (sub-)kind, kinds in sorted order: positions are
        drawn kind-first so that rare token kinds are hit as often as common ones."""
        key = (wl, i)
        g = self._by_kind.get(key)
        if g is None:
            d: dict[str, list[int]] = {}
            for j, (_, _, k) in enumerate(self.tokens(wl, i)):
                d.setdefault(k, []).append(j)
            g = [d[k] for k in sorted(d)]
            self._by_kind[key] = g
        return g


def build_corpus(workers: int = 8) -> Corpus:
    os.makedirs(CACHE_DIR, exist_ok=True)
    fp = _repo_fingerprint()
    cache = os.path.join(CACHE_DIR, f"corpus-{fp}.json")
    if os.path.exists(cache):
        try:
            with open(cache) as f:
                return Corpus([tuple(x) for x in json.load(f)])  # type: ignore[misc]
        except Exception:  # noqa: BLE001
            pass
    files = sorted(glob.glob(f"{REPO}/tests/filecheck/**/*.mlir", recursive=True))
    items: list[tuple[str, int, str, str]] = []
    if workers > 1:
        ctx = multiprocessing.get_context("fork")
        with ProcessPoolExecutor(max_workers=workers, mp_context=ctx) as ex:
            for part in ex.map(_build_file, files, chunksize=8):
                items.extend(part)
    else:
        for f in files:
            items.extend(_build_file(f))
    items.sort(key=lambda t: (t[0], t[1]))
    if len(items) < 50:
        raise HarnessError(f"corpus has only {len(items)} chunks: the fault-free parser is broken or tests/filecheck is missing")
    tmp = cache + f".{os.getpid()}.tmp"
    with open(tmp, "w") as f:
        json.dump(items, f)
    os.replace(tmp, cache)
    # keep the caches of a few other trees (scratch worktrees of concurrent runs): only the
    # oldest ones beyond eight are removed
    others = sorted((f for f in glob.glob(os.path.join(CACHE_DIR, "corpus-*.json")) if f != cache), key=lambda f: os.path.getmtime(f) if os.path.exists(f) else 0)
    for old in others[:-8]:
        try:
            os.remove(old)
        except OSError:
            pass
    return Corpus(items)


# ---------------------------------------------------------------------------
# the two clocks and the judge
# ---------------------------------------------------------------------------

_TOOL = 4
_clock = {"n": 0, "budget": 0}
_mon_ready = False


def _on_py_start(code: Any, offset: int) -> None:
    c = _clock
    c["n"] += 1
    if c["n"] > c["budget"]:
        c["budget"] = 1 << 62  # raise once
        raise StepBudgetExceeded()


def _mon_init() -> None:
    global _mon_ready
    if _mon_ready:
        return
    mon = sys.monitoring
    try:
        mon.use_tool_id(_TOOL, "simverif")
    except ValueError:
        pass
    mon.register_callback(_TOOL, mon.events.PY_START, _on_py_start)
    _mon_ready = True


def _frames(tb: Any) -> list[tuple[str, str]]:
    out = []
    while tb is not None:
        co = tb.tb_frame.f_code
        out.append((co.co_filename, co.co_qualname))
        tb = tb.tb_next
    return out


def _is_core(fn: str) -> bool:
    return "/xdsl/parser/" in fn or fn.endswith("mlir_lexer.py") or fn.endswith("utils/lexer.py")


def _site(tb: Any) -> tuple[str, str]:
    """(innermost xdsl function, innermost parser/lexer function) on a traceback."""
    inner_x = inner_p = "?"
    for fn, qn in _frames(tb):
        if "/xdsl/" in fn:
            inner_x = qn
            if _is_core(fn):
                inner_p = qn
    return inner_x, inner_p


_GRAMMAR_FN = None


def _budget_site(tb: Any) -> tuple[str, str]:
    """Attribution of an exceeded time budget: the clock trips in whatever leaf helper
    happens to run (``Token.text``, ``_current_token``), which differs from run to run of
    the same overrun.  Blame the innermost *grammar-level* function on the stack instead
    (``parse_*``, ``_parse_*``, ``resolve_*``, ``_register_*``, ``lex``, ``_lex_*``)."""
    global _GRAMMAR_FN
    import re

    if _GRAMMAR_FN is None:
        _GRAMMAR_FN = re.compile(r"(?:^|\.)_?(?:parse|lex|resolve|register)[A-Za-z0-9_]*$")
    inner_x = inner_p = best = "?"
    for fn, qn in _frames(tb):
        if "/xdsl/" in fn:
            inner_x = qn
            if _is_core(fn):
                inner_p = qn
                if _GRAMMAR_FN.search(qn) and "<" not in qn:
                    best = qn
    return inner_x, (best if best != "?" else inner_p)


def _core_raise_site(tb: Any) -> bool:
    """True iff the innermost xdsl frame of the traceback is in the core parser files."""
    last = ""
    for fn, _ in _frames(tb):
        if "/xdsl/" in fn:
            last = fn
    return bool(last) and _is_core(last)


class Judge:
    def __init__(self) -> None:
        self.core, self.full = _contexts()

    def parse(self, text: str, wl: int, cpu_scale: float = 1.0, lazy: bool = False) -> dict[str, Any]:
        """Run the pipeline on ``text`` under both clocks; classify the outcome."""
        from xdsl.parser import Parser
        from xdsl.utils.exceptions import DiagnosticException, ParseError, VerifyException

        _mon_init()
        mon = sys.monitoring
        # a private copy of the context for every parse: with allow_unregistered a parse
        # *registers* every unknown op / attribute name it meets in the context (e.g. a bare
        # `return` outside func.func becomes a known unregistered op and then shadows the
        # dialect-stack lookup of `func.return` in every later parse), so a shared context
        # makes the outcome of a parse depend on what was parsed before
        ctx = (self.core if wl == 0 else (_lazy_full() if lazy else self.full)).clone()
        res: dict[str, Any] = {"outcome": "", "events": 0}
        _clock["n"] = 0
        _clock["budget"] = STEP_K * (len(text) + 64)
        module = None
        phase = "parse"
        try:
            arm_watchdog((CPU_BASE_S + CPU_PER_CHAR_S * len(text)) * cpu_scale)
            mon.set_events(_TOOL, mon.events.PY_START)
            try:
                module = Parser(ctx, text).parse_module()
            finally:
                mon.set_events(_TOOL, 0)
                res["events"] = _clock["n"]
            phase = "verify"
            module.verify()
            res["outcome"] = "ok"
        except ParseError:
            res["outcome"] = "parse-error"
        except VerifyException:
            res["outcome"] = "verify-error"
        except DiagnosticException:
            res["outcome"] = "diagnostic"
        except StepBudgetExceeded as e:
            res["outcome"] = "step-budget"
            res["site"] = _budget_site(e.__traceback__)
        except WatchdogTimeout as e:
            res["outcome"] = "timeout" if phase == "parse" else "verify-slow"
            res["site"] = _budget_site(e.__traceback__)
        except RecursionError:
            res["outcome"] = "inconclusive-recursion"
        except MemoryError:
            res["outcome"] = "inconclusive-memory"
        except Exception as e:  # noqa: BLE001 - this is the containment oracle
            res["outcome"] = "escape"
            res["exc"] = type(e).__name__
            res["phase"] = phase
            res["site"] = _site(e.__traceback__)
            res["core_site"] = _core_raise_site(e.__traceback__)
        finally:
            disarm_watchdog()
            mon.set_events(_TOOL, 0)
        return res


# ---------------------------------------------------------------------------
# faults
# ---------------------------------------------------------------------------


def _pos(s: Stream, text: str, toks: list[tuple[int, int, str]], allow_end: bool = True, groups: list[list[int]] | None = None) -> int:
    """A position in text, biased to the inside of tokens: the token kind is drawn
    first (rare kinds are hit as often as common ones), then a token of that kind, then
    an offset that prefers the first and last few characters of the token."""
    n = len(text) + (1 if allow_end else 0)
    if n <= 0:
        return 0

    def gen(r: Any) -> int:
        if toks and r.randrange(5):
            if groups and r.randrange(3):
                g = groups[r.randrange(len(groups))]
                a, b, _ = toks[g[r.randrange(len(g))]]
            else:
                a, b, _ = toks[r.randrange(len(toks))]
            if b > a:
                m = r.randrange(8)
                if m < 3:
                    off = min(b - a, r.randrange(4))
                elif m < 5:
                    off = max(0, b - a - r.randrange(3))
                else:
                    off = r.randrange(b - a + 1)
                return min(n - 1, a + off)
        return r.randrange(n)

    return s.choice(n, gen)


def apply_fault(s: Stream, text: str, toks: list[tuple[int, int, str]], corpus: Corpus, wl: int, st: Counter[str], enabled: list[int], groups: list[list[int]] | None = None) -> tuple[str, str]:
    kind = FAULT_KINDS[s.weighted(enabled)]
    n = len(text)
    desc = kind
    if kind in ("tokrepl", "tokdel", "tokdup", "numtweak", "typetweak") and not toks:
        kind = "flip"
    if kind == "eof":
        k = _pos(s, text, toks, groups=groups)
        text = text[:k]
        desc = f"eof@{k}"
    elif kind == "drop":
        k = _pos(s, text, toks, allow_end=False, groups=groups)
        ln = 1 + (s.choice(4) if s.flag(1, 4) else 0)
        text = text[:k] + text[k + ln :]
        desc = f"drop@{k}+{ln}"
    elif kind == "flip":
        k = _pos(s, text, toks, allow_end=False, groups=groups)
        c = FLIP_ALPHABET[s.choice(len(FLIP_ALPHABET))]
        text = text[:k] + c + text[k + 1 :]
        desc = f"flip@{k}->{c!r}"
    elif kind == "insert":
        k = _pos(s, text, toks, groups=groups)
        c = FLIP_ALPHABET[s.choice(len(FLIP_ALPHABET))]
        text = text[:k] + c + text[k:]
        desc = f"insert@{k}<-{c!r}"
    elif kind == "dup":
        p = _pos(s, text, toks, allow_end=False, groups=groups)
        ln = 1 + s.choice(min(64, max(1, n - p)))
        reps = 1 + (s.choice(6) if s.flag(1, 6) else 0)
        text = text[: p + ln] + text[p : p + ln] * reps + text[p + ln :]
        desc = f"dup[{p},{p + ln})x{reps}"
    elif kind == "swap":
        p = _pos(s, text, toks, allow_end=False, groups=groups)
        l1 = 1 + s.choice(min(32, max(1, n - p)))
        l2 = 1 + s.choice(min(32, max(1, n - p - l1 + 1)))
        a, b = text[p : p + l1], text[p + l1 : p + l1 + l2]
        text = text[:p] + b + a + text[p + l1 + l2 :]
        desc = f"swap[{p},{p + l1})<->[{p + l1},{p + l1 + l2})"
    elif kind == "torn":
        other = corpus.text(wl, s.choice(len(corpus.w1)))
        sector = 512 * (1 + s.choice(max(1, n // 512)))
        text = text[:sector] + other[sector:]
        desc = f"torn@{sector}"
    elif kind == "splice":
        other = corpus.text(wl, s.choice(len(corpus.w1)))
        k = _pos(s, text, toks, groups=groups)
        q = s.choice(max(1, len(other)))
        ln = 1 + s.choice(80)
        text = text[:k] + other[q : q + ln] + text[k:]
        desc = f"splice@{k}+{ln}"
    elif kind == "stutter":
        # a short span re-delivered many times (stuck write)
        p = _pos(s, text, toks, allow_end=False, groups=groups)
        ln = 1 + s.choice(4)
        reps = (2, 8, 40, 300, 1200, 5000)[s.weighted((3, 3, 3, 2, 2, 1))]
        text = text[: p + ln] + text[p : p + ln] * reps + text[p + ln :]
        desc = f"stutter[{p},{p + ln})x{reps}"
    elif kind == "numtweak":
        # a number inside a token replaced by a boundary spelling (negative, huge, hex, float...)
        digit_toks = [j for j, (a, b, _) in enumerate(toks) if any(c.isdigit() for c in text[a:b])]
        if digit_toks and groups:
            gs = [[j for j in g if any(c.isdigit() for c in text[toks[j][0] : toks[j][1]])] for g in groups]
            gs = [g for g in gs if g]
            g = gs[s.choice(len(gs))]
            a, b, _tk = toks[g[s.choice(len(g))]]
        elif digit_toks:
            a, b, _tk = toks[digit_toks[s.choice(len(digit_toks))]]
        else:
            a, b, _tk = toks[s.choice(len(toks))]
        text, desc = num_tweak(text, a, b, s.choice(len(NUM_TWEAKS)))
    elif kind == "typetweak":
        # a builtin scalar type spelling replaced by an unusual / unsupported type
        tt = [j for j, (a, b, _) in enumerate(toks) if _type_token_span(text, a, b) is not None]
        if tt:
            a, b, _tk = toks[tt[s.choice(len(tt))]]
        else:
            a, b, _tk = toks[s.choice(len(toks))]
        text, desc = type_tweak(text, a, b, s.choice(len(TYPE_TWEAKS)))
    elif kind in ("tokrepl", "tokdel", "tokdup"):
        # token-level damage: a grammar token replaced by another corpus token, lost, or doubled
        if groups and s.flag(2, 3):
            g = groups[s.choice(len(groups))]
            a, b, tk = toks[g[s.choice(len(g))]]
        else:
            a, b, tk = toks[s.choice(len(toks))]
        if kind == "tokdel":
            text = text[:a] + text[b:]
            desc = f"tokdel[{a},{b}) {tk}"
        elif kind == "tokdup":
            text = text[:b] + " " + text[a:b] + text[b:]
            desc = f"tokdup[{a},{b}) {tk}"
        else:
            oi = s.choice(len(corpus.w1))
            otoks = corpus.tokens(wl, oi)
            ogroups = corpus.by_kind(wl, oi)
            if otoks:
                og = ogroups[s.choice(len(ogroups))]
                oa, ob, ok = otoks[og[s.choice(len(og))]]
                rep = corpus.text(wl, oi)[oa:ob]
            else:
                rep, ok = "0", "?"
            text = text[:a] + rep + text[b:]
            desc = f"tokrepl[{a},{b}) {tk} <- {ok} {rep[:24]!r}"
    elif kind == "crlf":
        text = text.replace("\n", "\r\n")
    elif kind == "bom":
        text = "﻿" + text
    elif kind == "utf8cut":
        k = _pos(s, text, toks, allow_end=False, groups=groups)
        c = "中é"[s.choice(2)]
        raw = (text[:k] + c).encode("utf-8")[:-1]
        text = raw.decode("utf-8", errors="replace")
        desc = f"utf8cut@{k}"
    st[f"fault.{kind}"] += 1
    return text, desc


def _token_kind_at(toks: list[tuple[int, int, str]], k: int) -> str:
    lo, hi = 0, len(toks)
    while lo < hi:
        mid = (lo + hi) // 2
        if toks[mid][1] <= k:
            lo = mid + 1
        else:
            hi = mid
    if lo < len(toks) and toks[lo][0] <= k < toks[lo][1]:
        return toks[lo][2]
    return "between-tokens"



# ---------------------------------------------------------------------------
# W4: synthetic stress texts (generated, not taken from the corpus)
# ---------------------------------------------------------------------------

_LITS = ("0", "1", "-1", "-0", "255", "256", "-129", "4294967296", "18446744073709551616", "1e3", "1.5", "-0.0", "1e400", "0x7F", "0xFFFFFFFF", "0x7FC00000", "true", "false", "0x", "1.", "inf", "nan") + _LONG_NUMS
_SCALAR_TYPES = ("i1", "i8", "i32", "i64", "index", "f16", "f32", "f64", "bf16") + TYPE_TWEAKS


def synth_text(cfg: Stream) -> tuple[str, str]:
    """A generated text of one of several families that stress one dimension each:
    alias DAGs, nesting depth, long flat lists, affine expressions, typed literals."""
    fam = cfg.choice(7)
    if fam == 0:
        # type alias DAG(s): !p(i+1) = tuple<!p(i), !p(i)>
        d = 2 + cfg.choice(38)
        two = cfg.choice(2)
        shape = cfg.choice(4)

        def chain(pn: str) -> str:
            out = f"!{pn}0 = i32\n"
            for i in range(1, d + 1):
                out += f"!{pn}{i} = tuple<!{pn}{i - 1}, !{pn}{i - 1}>\n"
            return out

        t = chain("a") + (chain("b") if two else "")
        other = "b" if two else "a"
        if shape == 0:
            t += f'%0 = "x"() : () -> !a{d}\n"y"(%0) : (!{other}{d}) -> ()\n'
        elif shape == 1:
            t += f'"y"(%0) : (!{other}{d}) -> ()\n%0 = "x"() : () -> !a{d}\n'
        elif shape == 2:
            t += f'"r"() ({{\n^bb0(%a : !a{d}):\n  "y"(%a, %a) : (!{other}{d}, !a{d}) -> ()\n}}) : () -> ()\n'
        else:
            t += f'"y"() {{a = !a{d}, b = !{other}{d}}} : () -> ()\n'
        return t, f"alias-dag(depth={d}, chains={1 + two}, shape={shape})"
    if fam == 1:
        # attribute alias DAG
        d = 2 + cfg.choice(38)
        kind = cfg.choice(2)
        t = "#a0 = 1 : i32\n#b0 = 1 : i32\n"
        for i in range(1, d + 1):
            for pn in "ab":
                t += f"#{pn}{i} = [#{pn}{i - 1}, #{pn}{i - 1}]\n" if kind == 0 else f"#{pn}{i} = {{x = #{pn}{i - 1}, y = #{pn}{i - 1}}}\n"
        t += f'"y"() {{a = #a{d}, b = #b{d}}} : () -> ()\n'
        return t, f"attr-alias-dag(depth={d}, kind={kind})"
    if fam == 2:
        # nesting depth
        d = (3, 20, 80, 300, 1200)[cfg.weighted((2, 3, 3, 2, 1))]
        kind = cfg.choice(5)
        if kind == 0:
            t = '"y"() {a = ' + "[" * d + "1" + "]" * d + "} : () -> ()\n"
        elif kind == 1:
            t = '"y"() : () -> ' + "tuple<" * d + "i32" + ">" * d + "\n"
        elif kind == 2:
            t = '"r"() (' + "{\n" + ('"r"() ({\n' * min(d, 300)) + ('}) : () -> ()\n' * min(d, 300)) + "}) : () -> ()\n"
        elif kind == 3:
            t = '"y"() {a = affine_map<(d0) -> (' + "(" * d + "d0" + ")" * d + ")>} : () -> ()\n"
        else:
            t = '"y"() {a = dense<' + "[" * min(d, 300) + "1" + "]" * min(d, 300) + "> : tensor<" + "1x" * min(d, 300) + "i32>} : () -> ()\n"
        return t, f"nesting(depth={d}, kind={kind})"
    if fam == 3:
        # long flat lists
        n = (5, 60, 400, 2500)[cfg.weighted((2, 3, 3, 1))]
        kind = cfg.choice(6)
        if kind == 0:
            t = "".join(f'%{i} = "x"() : () -> i32\n' for i in range(n))
        elif kind == 1:
            t = f'%0:{n} = "x"() : () -> (' + ", ".join(["i32"] * n) + ")\n" + f'"y"(%0#{n - 1}) : (i32) -> ()\n'
        elif kind == 2:
            t = '"y"() {a = dense<[' + ", ".join(str(i % 7) for i in range(n)) + f"]> : tensor<{n}xi8>}} : () -> ()\n"
        elif kind == 3:
            t = '"y"() {a = "' + "\\22ab\\n" * n + '"} : () -> ()\n'
        elif kind == 4:
            t = '"y"() {a = affine_map<(d0, d1)[s0] -> (' + " + ".join(("d0", "d1 * 2", "s0", "3")[i % 4] for i in range(n)) + ")>} : () -> ()\n"
        else:
            t = '"y"() {' + ", ".join(f"k{i} = {i}" for i in range(n)) + "} : () -> ()\n"
        return t, f"flat(n={n}, kind={kind})"
    if fam == 4:
        # generated affine expressions with boundary constants
        consts = ("0", "1", "-1", "2", "4", "-3", "9223372036854775807", "18446744073709551616")
        atoms = ("d0", "d1", "s0") + consts
        binops = ("+", "-", "*", "floordiv", "ceildiv", "mod")

        def expr(depth: int) -> str:
            if depth == 0 or cfg.flag(1, 3):
                return atoms[cfg.choice(len(atoms))]
            l, r = expr(depth - 1), expr(depth - 1)
            e = f"{l} {binops[cfg.choice(len(binops))]} {r}"
            return f"({e})" if cfg.flag(1, 2) else e

        k = cfg.choice(3)
        if k == 0:
            t = '"y"() {a = affine_map<(d0, d1)[s0] -> (' + ", ".join(expr(3) for _ in range(1 + cfg.choice(3))) + ")>} : () -> ()\n"
        elif k == 1:
            rel = (">=", "==")[cfg.choice(2)]
            t = '"y"() {a = affine_set<(d0, d1)[s0] : (' + ", ".join(f"{expr(2)} {rel} 0" for _ in range(1 + cfg.choice(3))) + ")>} : () -> ()\n"
        else:
            t = f'"y"() : () -> memref<4x?xf32, affine_map<(d0, d1)[s0] -> ({expr(3)}, {expr(2)})>>\n'
        return t, f"affine(kind={k})"
    if fam == 5:
        # typed literals: every literal spelling against every scalar type, in each literal context
        lit = _LITS[cfg.choice(len(_LITS))]
        ty = _SCALAR_TYPES[cfg.choice(len(_SCALAR_TYPES))]
        ctxk = cfg.choice(9)
        n = (0, 1, 2, 3)[cfg.choice(4)]
        if ctxk >= 7:
            # one unregistered dialect name met as attribute, as type, opaque and pretty, in both orders
            forms = (f"#un.known<{lit}>", f"!un.known<{ty}>", "#un.known", "!un.known", f'#un<"{lit}">', "!un<x>", f"#un.other<{lit}>", "!un.other")
            a, b2, c = (forms[cfg.choice(len(forms))] for _ in range(3))
            if ctxk == 7:
                t = f'"y"() {{a = {a}, b = {b2}}} : () -> ()\n"z"() {{c = {c}}} : () -> ()\n'
            else:
                t = f'%0 = "y"() {{a = {a}}} : () -> (!un.known)\n"z"(%0) {{c = {c}}} : (!un.known) -> ()\n'
            return t, f"typed-literal(ctx={ctxk}, unregistered forms {a!r}, {b2!r}, {c!r})"
        if ctxk == 0:
            t = f'"y"() {{a = {lit} : {ty}}} : () -> ()\n'
        elif ctxk == 1:
            t = f'"y"() {{a = dense<{lit}> : tensor<{n}x{ty}>}} : () -> ()\n'
        elif ctxk == 2:
            t = f'"y"() {{a = dense<[{lit}, {lit}]> : vector<2x{ty}>}} : () -> ()\n'
        elif ctxk == 3:
            t = f'"y"() {{a = array<{ty}: {lit}, {lit}>}} : () -> ()\n'
        elif ctxk == 4:
            t = f'"y"() {{a = dense<({lit}, {lit})> : tensor<1xcomplex<{ty}>>}} : () -> ()\n'
        elif ctxk == 5:
            t = f'"y"() {{a = dense<"0x0102030405060708"> : tensor<{n}x{ty}>}} : () -> ()\n'
        else:
            t = f'"y"() {{a = sparse<[[0]], [{lit}]> : tensor<{n + 1}x{ty}>, b = dense_resource<k> : tensor<{n}x{ty}>, c = #builtin.int<{lit}>, d = loc("f":{lit}:{lit})}} : () -> ()\n'
        return t, f"typed-literal(ctx={ctxk}, lit={(lit if len(lit) < 40 else lit[:6] + '...(' + str(len(lit)) + ' chars)')!r}, type={ty!r})"
    # fam 6: SSA names, indices and block labels at their boundaries
    k = cfg.choice(8)
    if k >= 6:
        names = ("_0", "_7", "_", "__1", "a_0", "a_", "0_0", "x_18446744073709551616", "_0_0", "$", "a.b_2", "-", "arg_00")
        nm = names[cfg.choice(len(names))]
        if k == 6:
            t = f'%{nm} = "x"() : () -> i32\n"y"(%{nm}) : (i32) -> ()\n"r"() ({{\n^bb0(%{nm}_1 : i32, %{nm} : i32):\n  "z"(%{nm}) : (i32) -> ()\n}}) : () -> ()\n'
        else:
            t = f'"r"() ({{\n  "b"()[^{nm}] : () -> ()\n^{nm}(%a : i32):\n  "y"(%a)[^{nm}, ^{nm}] : (i32) -> ()\n}}) : () -> ()\n'
        return t, f"ssa-boundary(kind={k}, name={nm!r})"
    idxs = ("0", "1", "2", "-1", "-2", "007", "18446744073709551616", "9" * 30) + _LONG_NUMS
    idx = idxs[cfg.choice(len(idxs))]
    if k == 0:
        t = f'%0:2 = "x"() : () -> (i32, i32)\n"y"(%0#{idx}) : (i32) -> ()\n'
    elif k == 1:
        t = f'"y"(%0#{idx}) : (i32) -> ()\n%0:2 = "x"() : () -> (i32, i32)\n'
    elif k == 2:
        t = f'%0:{idx} = "x"() : () -> (i32, i32)\n'
    elif k == 3:
        t = f'"r"() ({{\n^bb{idx}(%a : i32):\n  "y"(%a#{idx})[^bb{idx}] : (i32) -> ()\n}}) : () -> ()\n'
    elif k == 4:
        t = f'"r"() ({{\n  "b"()[^{idx}, ^bb1] : () -> ()\n^bb1:\n  "y"() : () -> ()\n}}) : () -> ()\n'
    else:
        t = f'%{idx} = "x"() : () -> i32\n"y"(%{idx}, %{idx}#0) : (i32, i32) -> ()\n'
    return t, f"ssa-boundary(kind={k}, idx={(idx if len(idx) < 40 else idx[:6] + '...(' + str(len(idx)) + ' chars)')!r})"

# ---------------------------------------------------------------------------
# engine
# ---------------------------------------------------------------------------

_CORPUS: Corpus | None = None
_JUDGE: Judge | None = None
_CONFIRMED: Counter[Any] = Counter()


def _enum_task(args: tuple[int, int, int, list[tuple[int, int, int]] | None]) -> tuple[Counter[str], list[tuple[int, dict[str, Any], Violation]], int, int, list[int]]:
    """Enumerated single faults.  Either one chunk (eof@k and drop@k for k = first,
    first+step, ...) or an explicit list of (mode, chunk, offset)."""
    import faulthandler

    ci, first, step, explicit = args
    eng = _ENG
    assert eng is not None and _CORPUS is not None
    st: Counter[str] = Counter()
    viols: list[tuple[int, dict[str, Any], Violation]] = []
    done = 0
    maxev = 0
    fps: list[int] = []
    if isinstance(explicit, tuple) and len(explicit) == 3 and explicit[0] == "range":
        # a slice of one chunk's offsets (thorough tier: no task runs for more than a few minutes)
        _, lo, hi = explicit
        n = len(_CORPUS.w1[ci])
        todo = [(mode, ci, k, 0) for mode in (1, 2) for k in range(max(first, lo), min(hi, n + (1 if mode == 1 else 0)), step)]
    elif explicit is not None:
        todo = explicit
    else:
        n = len(_CORPUS.w1[ci])
        todo = [(mode, ci, k, 0) for mode in (1, 2) for k in range(first, n + (1 if mode == 1 else 0), step)]
    try:
        for item in todo:
            faulthandler.dump_traceback_later(900, exit=True)
            rec = {"cfg": [list(item)]}
            ch = Chooser(record=rec)
            r = eng.run(ch, False)
            merge_stats(st, r.stats)
            done += 1
            maxev = max(maxev, r.steps)
            if r.nontrivial:
                fps.append(r.fingerprint)
            for v in ([r.violation] if r.violation else []) + r.extra_violations:
                if len(viols) < 20:
                    viols.append((-1, rec, v))
            if sum(1 for _, _, v in viols if v.oracle.startswith("T-")) >= 6:
                st["enum.task_cut_short_after_repeated_timeouts"] += 1
                break
    finally:
        faulthandler.cancel_dump_traceback_later()
    return st, viols, done, maxev, fps


def _strata(corpus: Corpus, seed: int) -> list[tuple[int, ...]]:
    """Stratified single faults for the quick tier: every distinct (kind of the token
    that is cut, how far into the token, kinds of the previous and next token) gets one
    representative (chunk, offset), rotated by the seed; eof@k and drop@k at each."""
    out: list[tuple[int, ...]] = []
    for wl in (0, 1):
        strata: dict[tuple[Any, ...], list[tuple[int, int]]] = {}
        for ci in range(len(corpus.w1)):
            text = corpus.text(wl, ci)
            if len(text) > ENUM_MAX_LEN:
                continue
            prev = "START"
            toks = corpus.tokens(wl, ci)
            for ti, (a, b, kind) in enumerate(toks):
                nxt = toks[ti + 1][2] if ti + 1 < len(toks) else "END"
                ln = b - a
                for off in sorted({0, 1, 2, 3, ln - 1, ln}):
                    if 0 <= off <= ln:
                        where: Any = off if off <= 3 else ("end", ln - off)
                        strata.setdefault((kind, where, prev, nxt), []).append((ci, a + off))
                prev = kind
        for key in sorted(strata, key=repr):
            cands = strata[key]
            ci, k = cands[zlib.crc32(f"{seed}:{wl}:{key!r}".encode()) % len(cands)]
            out.append((1, ci, k, wl))
            out.append((2, ci, k, wl))
    return out  # type: ignore[return-value]


def _num_strata(corpus: Corpus, seed: int) -> list[tuple[int, ...]]:
    """Stratified numeric tweaks: for every distinct (kind of a token that contains a
    digit, previous kind, next kind) one representative token, each boundary spelling."""
    out: list[tuple[int, ...]] = []
    for wl in (0, 1):
        strata: dict[tuple[Any, ...], list[tuple[int, int]]] = {}
        for ci in range(len(corpus.w1)):
            text = corpus.text(wl, ci)
            if len(text) > ENUM_MAX_LEN:
                continue
            toks = corpus.tokens(wl, ci)
            prev = "START"
            for ti, (a, b, kind) in enumerate(toks):
                nxt = toks[ti + 1][2] if ti + 1 < len(toks) else "END"
                if any(c.isdigit() for c in text[a:b]):
                    strata.setdefault((kind, prev, nxt), []).append((ci, ti))
                prev = kind
        for key in sorted(strata, key=repr):
            cands = strata[key]
            ci, ti = cands[zlib.crc32(f"{seed}:n:{wl}:{key!r}".encode()) % len(cands)]
            for tw in range(len(NUM_TWEAKS)):
                out.append((3, ci, ti, tw, wl))
    return out  # type: ignore[return-value]


def _type_strata(corpus: Corpus, seed: int) -> list[tuple[int, ...]]:
    """Stratified type tweaks: for every distinct (spelling class of a builtin scalar type
    token, previous kind, next kind) one representative token, each unusual type."""
    out: list[tuple[int, ...]] = []
    for wl in (0, 1):
        strata: dict[tuple[Any, ...], list[tuple[int, int]]] = {}
        for ci in range(len(corpus.w1)):
            text = corpus.text(wl, ci)
            if len(text) > ENUM_MAX_LEN:
                continue
            toks = corpus.tokens(wl, ci)
            prev = "START"
            for ti, (a, b, kind) in enumerate(toks):
                nxt = toks[ti + 1][2] if ti + 1 < len(toks) else "END"
                sp = _type_token_span(text, a, b)
                if sp is not None:
                    cls = text[sp[0]] + ("x" if sp[0] > a else "")
                    strata.setdefault((cls, prev, nxt), []).append((ci, ti))
                prev = kind
        for key in sorted(strata, key=repr):
            cands = strata[key]
            ci, ti = cands[zlib.crc32(f"{seed}:t:{wl}:{key!r}".encode()) % len(cands)]
            for tw in range(len(TYPE_TWEAKS)):
                out.append((4, ci, ti, tw, wl))
    return out  # type: ignore[return-value]


_ENG: "StreamEngine | None" = None


@register
class StreamEngine(Engine):
    prop = "C07"
    engine_name = "streamsim"
    level = "fault_enumeration"
    tiers = {
        "quick": {"runs": 16_000, "wall_cap_s": 240, "samples": 3},
        "thorough": {"runs": 1_500_000, "wall_cap_s": 1200, "samples": 3},
    }
    shrink_order = ("faults", "cfg")
    no_delete = ("cfg",)
    selftest_runs = 120
    replay_repeat_max = 4
    known_sigs: frozenset[str] = frozenset()

    def prepare(self, tier: str, seed: int) -> None:
        global _CORPUS, _JUDGE, _ENG
        try:
            soft, hard = resource.getrlimit(resource.RLIMIT_AS)
            lim = 5 << 29  # 2.5 GB per process: 16 workers fit in memory, a damaged shape digit gives MemoryError
            if hard == resource.RLIM_INFINITY or hard > lim:
                resource.setrlimit(resource.RLIMIT_AS, (lim, hard))
        except (ValueError, OSError):
            pass
        if _CORPUS is None:
            _CORPUS = build_corpus(min(16, os.cpu_count() or 1))
        if _JUDGE is None:
            _JUDGE = Judge()
            # warm-up (untimed, unjudged): function-level lazy imports of the parser paths
            for i in range(0, len(_CORPUS.w1), max(1, len(_CORPUS.w1) // 40)):
                for wl in (0, 1):
                    try:
                        _JUDGE.parse(_CORPUS.text(wl, i), wl)
                    except BaseException:  # noqa: BLE001
                        pass
            # everything loaded so far (80 dialects) is permanent: keep it out of later
            # garbage collections (a full collection of that heap inside a timed parse
            # costs more CPU than the parse budget) and out of copy-on-write after fork
            import gc

            gc.collect()
            gc.freeze()
        self.known_sigs = frozenset(load_known_findings(self.prop))
        _ENG = self

    # -- one run: one damaged file, one parse -----------------------------------
    def run(self, ch: Chooser, trace: bool) -> RunResult:
        corpus, judge = _CORPUS, _JUDGE
        assert corpus is not None and judge is not None
        cfg = ch.stream("cfg")
        fs = ch.stream("faults")
        res = RunResult()
        st = res.stats
        tr: list[str] | None = [] if trace else None
        w3 = False
        w4_label = ""
        mode = cfg.choice(6, lambda r: 0)  # 0 sampled; 1 / 2 / 3 = enumerated eof / drop / numeric tweak (records built by extra_phase)
        if mode == 3:
            ci = cfg.choice(len(corpus.w1))
            ti_raw = cfg.choice(1 << 30)
            tw = cfg.choice(len(NUM_TWEAKS))
            wl = cfg.choice(2)
            text = corpus.text(wl, ci)
            toks = corpus.tokens(wl, ci)
            ti = ti_raw % max(1, len(toks))
            if toks:
                a, b, kd = toks[ti]
                damaged, d = num_tweak(text, a, b, tw)
                st["tok." + kd] += 1
            else:
                damaged, d = text, "numtweak(no tokens)"
            st["enum.numtweak"] += 1
            descs = [d]
        elif mode == 4:
            ci = cfg.choice(len(corpus.w1))
            ti_raw = cfg.choice(1 << 30)
            tw = cfg.choice(len(TYPE_TWEAKS))
            wl = cfg.choice(2)
            text = corpus.text(wl, ci)
            toks = corpus.tokens(wl, ci)
            ti = ti_raw % max(1, len(toks))
            if toks:
                a, b, kd = toks[ti]
                damaged, d = type_tweak(text, a, b, tw)
                st["tok." + kd] += 1
            else:
                damaged, d = text, "typetweak(no tokens)"
            st["enum.typetweak"] += 1
            descs = [d]
        elif mode:
            ci = cfg.choice(len(corpus.w1))
            k_raw = cfg.choice(1 << 30)
            wl = cfg.choice(2)
            text = corpus.text(wl, ci)
            toks = corpus.tokens(wl, ci)
            k = k_raw % (len(text) + 1)
            if mode == 1:
                st["enum.eof"] += 1
                st["tok." + _token_kind_at(toks, k)] += 1
                damaged = text[:k]
                descs = [f"eof@{k}"]
            else:
                k = min(k, max(0, len(text) - 1))
                st["enum.drop"] += 1
                st["tok." + _token_kind_at(toks, k)] += 1
                damaged = text[:k] + text[k + 1 :]
                descs = [f"drop@{k}"]
        else:
            wl = cfg.weighted((2, 1))
            ci = cfg.choice(len(corpus.w1))
            text = corpus.text(wl, ci)
            toks = corpus.tokens(wl, ci)
            if wl == 0 and cfg.flag(1, 7):
                # W4: a generated stress text (builtin-only context)
                text, label = synth_text(cfg)
                toks = []
                w3 = True
                w4_label = label
                st["workload.W4_synthetic." + label.split("(")[0]] += 1
            elif wl == 0 and toks and cfg.flag(1, 6):
                # W3: a generated token sequence (tokens of one generic-form chunk in
                # seeded order, a prefix kept intact so that the parser gets going)
                keep = cfg.choice(min(len(toks), 40) + 1)
                n_tok = 1 + cfg.choice(60)
                parts = [text[a:b] for a, b, _ in toks[:keep]]
                for _ in range(n_tok):
                    a, b, _k = toks[cfg.choice(len(toks))]
                    parts.append(text[a:b])
                text = " ".join(parts)
                toks = []
                w3 = True
                st["workload.W3_token_sequence"] += 1
            enabled = [1 if cfg.flag(3, 4) else 0 for _ in FAULT_KINDS]
            if not any(enabled):
                enabled[cfg.choice(len(enabled))] = 1
            nf = 1 + cfg.weighted((5, 3, 2))
            if w4_label and cfg.flag(1, 2):
                nf = 0  # the generated text itself is the input
            damaged = text
            descs = []
            groups = corpus.by_kind(wl, ci) if toks else None
            for _ in fs.iter_steps(nf):
                intact = damaged is text
                damaged, d = apply_fault(fs, damaged, toks if intact else [], corpus, wl, st, enabled, groups if intact else None)
                descs.append(d)
        if tr is not None:
            tr.append(f"file {corpus.names[ci]} workload {(('W4-synthetic ' + w4_label) if w4_label else 'W3-token-sequence' if w3 else 'W1-core-generic') if wl == 0 else 'W2-full-custom'} len {len(text)} faults {descs} -> len {len(damaged)} crc {zlib.crc32(damaged.encode('utf-8', 'replace')):08x}")
        # W2: half of the parses start from a context whose dialects are registered but not
        # loaded yet (a clone of one shared parent, as xdsl-opt --split-input-file does)
        lazy = bool(wl == 1 and mode == 0 and cfg.choice(2))
        if lazy:
            st["workload.W2_lazy_dialect_loading"] += 1
        out = judge.parse(damaged, wl, lazy=lazy)
        oc = out["outcome"]
        if oc == "timeout":
            # confirm by re-executions with a doubled CPU budget (skipped once the same
            # site has been confirmed three times in this process: a real hang must not
            # cost minutes per input)
            site = out["site"]
            if _CONFIRMED[site] < 3:
                again = [judge.parse(damaged, wl, 2.0, lazy=lazy) for _ in range(2)]
                if all(a["outcome"] == "timeout" for a in again):
                    _CONFIRMED[site] += 1
                else:
                    # the watchdog fired but the parse does finish (a garbage-collection
                    # pause, a borderline input): judge what the finished execution
                    # produced; only the statistics remember that it was slow once
                    st["slow_but_finished"] += 1
                    out = next(a for a in again if a["outcome"] != "timeout")
                    oc = out["outcome"]
        elif oc == "verify-slow":
            # the watchdog fired inside verify() (not judged): like above, log what a
            # finished execution produces so that timer noise never reaches the trace
            for _ in range(2):
                a = judge.parse(damaged, wl, 2.0, lazy=lazy)
                if a["outcome"] not in ("verify-slow", "timeout"):
                    st["slow_but_finished"] += 1
                    out = a
                    oc = out["outcome"]
                    break
        st[f"outcome.{'W1' if wl == 0 else 'W2'}.{oc}"] += 1
        res.steps = out["events"]
        viol: Violation | None = None
        if oc == "escape":
            ix, ip = out["site"]
            sig = f"escape:{out['exc']}:{ix}@{ip}" + (":verify" if out["phase"] == "verify" else "")
            if wl == 0 or out.get("core_site") or out["phase"] == "parse":
                where = "a damaged generic-form file" if wl == 0 else "a damaged custom-syntax file (all dialects registered)"
                viol = Violation("E-internal-error", f"{ix}@{ip}", 0, f"{out['exc']} escaped from {ix} (parser function {ip}, phase {out['phase']}) on {where}", sig)
            else:
                st[f"w2_escape_site.{out['exc']}:{ix}"] += 1
        elif oc == "step-budget":
            ix, ip = out["site"]
            viol = Violation("T-step-budget", ip, 0, f"more than {STEP_K}*(len+64) = {STEP_K * (len(damaged) + 64)} Python calls for a {len(damaged)}-character input (in {ix}, parser function {ip})", f"step-budget:{ip}")
        elif oc == "timeout":
            ix, ip = out["site"]
            viol = Violation("T-timeout", ip, 0, f"no result within {CPU_BASE_S}s + {CPU_PER_CHAR_S * 1000:.0f}ms/char of CPU time for a {len(damaged)}-character input (in {ix}, parser function {ip}); confirmed twice with a doubled budget", f"timeout:{ip}")
        if viol is not None and viol.signature in self.known_sigs:
            res.extra_violations.append(viol)
            viol = None
        res.violation = viol
        if tr is not None:
            tr.append(f"outcome {oc}" + (f" {out.get('exc')} at {out.get('site')}" if oc == "escape" else ""))
            if viol is not None:
                tr.append(f"VIOLATION {viol.oracle}: {viol.detail}")
        ev_per_char = out["events"] / (len(damaged) + 64)
        st["max.events_per_char_x100." + ("W1" if wl == 0 else "W2")] = int(ev_per_char * 100)
        res.nontrivial = damaged != text or w3
        res.fingerprint = zlib.crc32(damaged.encode("utf-8", "replace")) ^ (len(damaged) << 32) ^ (wl << 60)
        res.trace = tr
        return res

    # -- enumerated single faults (fault_enumeration tier) ----------------------
    def extra_phase(self, tier: str, seed: int, workers: int):
        corpus = _CORPUS
        assert corpus is not None
        step = ENUM_SLICES if tier == "quick" else 1
        first = seed % ENUM_SLICES if tier == "quick" else 0
        cap = float(os.environ.get("VERIF_ENUM_WALL_S", "0") or 0) or (200 if tier == "quick" else 1800)
        tasks: list[tuple[int, int, int, Any]] = [(ci, first, step, None) for ci, t in enumerate(corpus.w1) if len(t) <= ENUM_MAX_LEN]
        # big chunks first: better load balance
        tasks.sort(key=lambda t: -len(corpus.w1[t[0]]))
        n_chunk_tasks = len(tasks)
        if tier != "quick":
            # every offset: split each chunk into slices of 1000 offsets, so that the wall cap
            # below takes effect within minutes
            tasks = [(ci, first, step, ("range", lo, lo + 1000)) for ci, _, _, _ in tasks for lo in range(0, len(corpus.w1[ci]) + 1, 1000)]
        strat: list[tuple[int, int, int]] = []
        if tier == "quick":
            strat = _strata(corpus, seed) + _num_strata(corpus, seed) + _type_strata(corpus, seed)  # type: ignore[operator]
            tasks = [(-1, 0, 0, strat[i : i + 150]) for i in range(0, len(strat), 150)] + tasks
        # chunks that touch process-global parser state (resource handles, file metadata) go
        # first: one task parses such a chunk many times in one process, which is what a
        # history-dependent defect needs, and it must not fall victim to the wall cap
        tasks.sort(key=lambda t: 0 if t[0] >= 0 and ("dense_resource" in corpus.w1[t[0]] or "{-#" in corpus.w1[t[0]]) else 1)
        st: Counter[str] = Counter()
        viols: list[tuple[int, dict[str, Any], Violation]] = []
        done = 0
        maxev = 0
        fpset: set[int] = set()
        t0 = time.monotonic()
        chunks_done = 0
        capped = False
        ctx = multiprocessing.get_context("fork")
        with ProcessPoolExecutor(max_workers=workers, mp_context=ctx) as ex:
            futs = [ex.submit(_enum_task, t) for t in tasks]
            try:
                from concurrent.futures import as_completed

                for f in as_completed(futs):
                    if f.cancelled():
                        continue
                    s, v, d, m, fp = f.result()
                    fpset.update(fp)
                    merge_stats(st, s)
                    viols.extend(v)
                    done += d
                    maxev = max(maxev, m)
                    chunks_done += 1
                    if (time.monotonic() - t0 > cap or len(viols) >= 80) and not capped:
                        capped = True
                        for g in futs:
                            g.cancel()
            except Exception as e:  # noqa: BLE001
                raise HarnessError(f"enumeration pool failed: {type(e).__name__}: {e}")
        st["enumerated_inputs"] = done
        cov = {
            "enumerated_single_faults": {
                "kinds": ["eof@k (truncation / short read at offset k)", "drop@k (one lost byte at offset k)"],
                "chunks_total": len(corpus.w1),
                "chunks_enumerated": chunks_done,
                "chunks_too_large_sampled_only": len(corpus.w1) - n_chunk_tasks,
                "stratified_inputs (one eof + one drop per distinct (cut token kind, offset into token, previous and next token kind))": len(strat),
                "offset_slice": f"k = {first} mod {step}" if step > 1 else "every offset",
                "inputs": done,
                "complete_for_slice": not capped,
                "wall_capped": capped,
            },
            "enumerated_distinct": len(fpset),
            "enumerated_fingerprints": fpset,
            "exhaustive": bool(step == 1 and not capped),
        }
        return st, viols, cov

    def rule(self) -> str:
        return (
            "one case = one corpus chunk (generic-form/builtin-only 'W1' or original/all-dialects 'W2') damaged by a fault "
            "sequence, parsed and verified once under the step clock and the CPU watchdog; enumerated tier: every "
            "(chunk, eof@k) and (chunk, drop@k) of the selected offset slice; sampled tier: 1-3 faults of 16 kinds; "
            "non-trivial = the damaged text differs from the stored text; distinct = distinct damaged texts (crc+length)"
        )

    def assumptions(self) -> list[str]:
        return [
            "containment (no internal error) is judged on W1 (parse and verify) and on W2 for the parse phase (since fix e0f3e8f errors of dialect-specific parsers are parse errors); internal errors raised by dialect-specific *verifiers* on W2 are listed by site, not judged (a long tail outside the anchored files)",
            "RecursionError / MemoryError are resource exhaustion: counted as inconclusive, never a violation",
            f"prompt = at most {STEP_K}*(len+64) Python function calls (deterministic) and {CPU_BASE_S}s + {CPU_PER_CHAR_S * 1000:.0f}ms/char CPU (watchdog, confirmed twice)",
            "work inside a single regex call is invisible to the step clock; only the CPU watchdog bounds it",
        ]

    def components(self) -> dict[str, list[str]]:
        return {
            "real": [
                "xdsl.utils.mlir_lexer.MLIRLexer, xdsl.utils.lexer",
                "xdsl.parser (BaseParser, GenericParser, AttrParser, AffineParser, Parser)",
                "builtin attribute/type parsing; all registered dialect parsers in W2",
                "Operation.verify",
            ],
            "simulated": ["the file (stored corpus chunk + fault sequence)", "the clocks (sys.monitoring call counter; ITIMER_VIRTUAL watchdog)"],
            "stub": [],
        }

    def evidence_extra(self, stats: Counter[str], tier: str) -> dict[str, Any]:
        return {
            "faults_injected": {
                **{k[6:]: v for k, v in sorted(stats.items()) if k.startswith("fault.")},
                "enumerated_eof": stats.get("enum.eof", 0),
                "enumerated_drop": stats.get("enum.drop", 0),
                "enumerated_numeric_tweak": stats.get("enum.numtweak", 0),
                "enumerated_type_tweak": stats.get("enum.typetweak", 0),
            },
            "outcomes": {k[8:]: v for k, v in sorted(stats.items()) if k.startswith("outcome.")},
            "watchdog_fired_but_parse_finished_on_reexecution": stats.get("slow_but_finished", 0),
            "enumerated_fault_position_token_kind": {k[4:]: v for k, v in sorted(stats.items()) if k.startswith("tok.")},
            "w2_escape_sites_not_judged": {k[15:]: v for k, v in sorted(stats.items()) if k.startswith("w2_escape_site.")},
            "step_budget_K": STEP_K,
            "max_events_per_char_seen": {k[25:]: v / 100 for k, v in sorted(stats.items()) if k.startswith("max.events_per_char_x100.")},
            "corpus_chunks": len(_CORPUS.w1) if _CORPUS else 0,
            "corpus_bytes_w1": sum(len(t) for t in _CORPUS.w1) if _CORPUS else 0,
            "corpus_bytes_w2": sum(len(t) for t in _CORPUS.w2) if _CORPUS else 0,
        }
