"""
C12 -- Worklist, (Int)DisjointSet and ScopedDict against executable abstract models.

Seeded operation histories, every return value compared with a trivial model
(DESIGN.md section 3.5).  There is no fault or schedule dimension: these containers
have one caller, do no I/O and cannot fail half-way.  The engine says so in its
evidence instead of inventing one.
"""

from __future__ import annotations

import zlib
from collections import Counter
from typing import Any

from xdsl.dialects.test import TestOp
from xdsl.utils.disjoint_set import DisjointSet, IntDisjointSet
from xdsl.utils.scoped_dict import ScopedDict
from xdsl.utils.worklist import Worklist

from simverif.kernel import Chooser, Engine, RunResult, Stream, Violation, register

MACHINES = ("worklist", "intds", "ds", "scoped")


class _Fail(Exception):
    def __init__(self, oracle: str, call: str, detail: str):
        self.oracle, self.call, self.detail = oracle, call, detail


def _call(f, *a):
    """Run an API call; return ('ok', value) or ('raise', ExceptionTypeName)."""
    try:
        return ("ok", f(*a))
    except Exception as e:  # noqa: BLE001 - the model decides whether it is expected
        return ("raise", type(e).__name__)


# ---------------------------------------------------------------------------
# Worklist
# ---------------------------------------------------------------------------


def run_worklist(cfg: Stream, h: Stream, n: int, tr: list[str] | None, st: Counter[str]) -> int:
    kind = cfg.choice(3)  # 0 ints, 1 strs/tuples, 2 real Operations
    usize = 2 + cfg.choice(5)
    if kind == 0:
        items: list[Any] = list(range(usize))
        names = [str(i) for i in items]
    elif kind == 1:
        items = [("t", i) if i % 2 else f"s{i}" for i in range(usize)]
        names = [repr(i) for i in items]
    else:
        items = [TestOp.create() for _ in range(usize)]
        names = [f"op{i}" for i in range(usize)]
    w: Worklist[Any] = Worklist()
    model: list[Any] = []
    calls = 0
    saw_remove_repush = False
    removed: set[int] = set()
    for step in h.iter_steps(n):
        op = h.weighted((5, 4, 3, 3))
        if op == 0:
            i = h.choice(usize)
            x = items[i]
            r = _call(w.push, x)
            if x not in model:
                model.append(x)
                if i in removed:
                    saw_remove_repush = True
                    removed.discard(i)
            if r != ("ok", None):
                raise _Fail("worklist-model", "Worklist.push", f"push({names[i]}) -> {r}")
            if tr is not None:
                tr.append(f"push({names[i]})")
            st["call.Worklist.push"] += 1
        elif op == 1:
            r = _call(w.pop)
            if model:
                exp = model.pop()
                ok = r[0] == "ok" and r[1] is exp
                expn = names[items.index(exp)]
            else:
                ok = r == ("raise", "IndexError")
                expn = "IndexError"
            got = names[items.index(r[1])] if r[0] == "ok" and r[1] in items else str(r)
            if tr is not None:
                tr.append(f"pop() -> {got}")
            if not ok:
                raise _Fail("worklist-model", "Worklist.pop", f"pop() returned {got}, model says {expn}")
            st["call.Worklist.pop"] += 1
            if not model:
                st["reach.worklist.pop_on_empty_or_last"] += 1
        elif op == 2:
            i = h.choice(usize)
            x = items[i]
            r = _call(w.remove, x)
            if x in model:
                model.remove(x)
                removed.add(i)
                st["reach.worklist.remove_present"] += 1
            if r != ("ok", None):
                raise _Fail("worklist-model", "Worklist.remove", f"remove({names[i]}) -> {r}")
            if tr is not None:
                tr.append(f"remove({names[i]})")
            st["call.Worklist.remove"] += 1
        else:
            r = _call(bool, w)
            if tr is not None:
                tr.append(f"bool() -> {r[1]}")
            if r != ("ok", bool(model)):
                raise _Fail("worklist-model", "Worklist.__bool__", f"bool() -> {r}, model has {len(model)} items")
            st["call.Worklist.__bool__"] += 1
        calls += 1
    # drain: the rest must come out in reverse push order
    while True:
        r = _call(w.pop)
        if not model:
            if r != ("raise", "IndexError"):
                raise _Fail("worklist-model", "Worklist.pop", f"drain: pop on empty -> {r}")
            break
        exp = model.pop()
        if not (r[0] == "ok" and r[1] is exp):
            raise _Fail("worklist-model", "Worklist.pop", f"drain: expected {names[items.index(exp)]}, got {r[0]}")
    if saw_remove_repush:
        st["reach.worklist.remove_then_repush"] += 1
    return calls


# ---------------------------------------------------------------------------
# Union-find
# ---------------------------------------------------------------------------


class _UFModel:
    def __init__(self, n: int):
        self.label = list(range(n))
        self.rep: dict[int, int | None] = {i: i for i in range(n)}  # label -> known rep

    def add(self) -> int:
        i = len(self.label)
        self.label.append(i)
        self.rep[i] = i
        return i

    def members(self, lab: int) -> list[int]:
        return [i for i, l in enumerate(self.label) if l == lab]

    def same(self, a: int, b: int) -> bool:
        return self.label[a] == self.label[b]

    def merge(self, a: int, b: int, rep: int | None) -> bool:
        la, lb = self.label[a], self.label[b]
        if la == lb:
            return False
        for i, l in enumerate(self.label):
            if l == lb:
                self.label[i] = la
        del self.rep[lb]
        self.rep[la] = rep
        return True

    def classes(self) -> int:
        return len(self.rep)


def run_unionfind(generic: bool, cfg: Stream, h: Stream, n: int, tr: list[str] | None, st: Counter[str]) -> int:
    size0 = cfg.choice(7)
    pre_find = cfg.choice(2)  # observe find(l) right before union_left (1) or rely on model (0)
    pfx = "DisjointSet" if generic else "IntDisjointSet"
    vals: list[Any] = []

    def mk(i: int) -> Any:
        return f"e{i}" if i % 2 == 0 else ("e", i)

    if generic:
        vals = [mk(i) for i in range(size0)]
        d: Any = DisjointSet(vals)
    else:
        d = IntDisjointSet(size=size0)
    m = _UFModel(size0)

    def ext(i: int) -> Any:  # model index -> API value
        if generic:
            return vals[i] if 0 <= i < len(vals) else f"missing{i}"
        return i

    def back(v: Any) -> int | None:  # API value -> model index
        if generic:
            try:
                return vals.index(v)
            except ValueError:
                return None
        return v if isinstance(v, int) else None

    def find(i: int) -> tuple[str, Any]:
        return _call(d.find, ext(i)) if generic else _call(d.__getitem__, i)

    def check_find(i: int, where: str) -> int:
        r = find(i)
        if r[0] != "ok":
            raise _Fail("unionfind-model", where, f"find({i}) raised {r[1]}")
        root = back(r[1])
        if root is None or not (0 <= root < len(m.label)) or not m.same(root, i):
            raise _Fail("unionfind-model", where, f"find({i}) -> {r[1]!r} which is not a member of its class {m.members(m.label[i])}")
        known = m.rep[m.label[i]]
        if known is not None and known != root:
            raise _Fail("unionfind-model", where, f"find({i}) -> {root}, but the representative of that class is {known}")
        m.rep[m.label[i]] = root
        return root

    def pick(allow_bad: bool = True) -> int:
        nn = len(m.label)
        if allow_bad and h.flag(1, 12):
            st["fault.unionfind.out_of_range_arg"] += 1
            return (-1, nn, nn + 3)[h.choice(3)]
        if nn == 0:
            return 0
        return h.choice(nn)

    calls = 0
    for step in h.iter_steps(n):
        nn = len(m.label)
        op = h.weighted((2, 4, 4, 4, 3, 1, 1, 1, 1 if generic else 0))
        if op == 0:
            if nn >= 9:
                continue
            if generic:
                v = mk(nn)
                vals.append(v)
                r = _call(d.add, v)
                exp = ("ok", None)
            else:
                r = _call(d.add)
                exp = ("ok", nn)
            m.add()
            if tr is not None:
                tr.append(f"add() -> {r}")
            if r != exp:
                raise _Fail("unionfind-model", f"{pfx}.add", f"add() -> {r}, expected {exp}")
            st[f"call.{pfx}.add"] += 1
        elif op == 1:
            i = pick()
            if 0 <= i < nn:
                root = check_find(i, f"{pfx}.find")
                if tr is not None:
                    tr.append(f"find({i}) -> {root}")
            else:
                r = find(i)
                if tr is not None:
                    tr.append(f"find({i}) -> {r}")
                if r != ("raise", "KeyError"):
                    raise _Fail("unionfind-model", f"{pfx}.find", f"find({i}) on {nn} elements -> {r}, expected KeyError")
            st[f"call.{pfx}.find"] += 1
        elif op in (2, 3):
            name = "union" if op == 2 else "union_left"
            a, b = pick(), pick()
            valid = 0 <= a < nn and 0 <= b < nn
            rep: int | None = None
            if valid and op == 3:
                if pre_find:
                    rep = check_find(a, f"{pfx}.find")
                else:
                    rep = m.rep[m.label[a]]
            r = _call(getattr(d, name), ext(a), ext(b))
            if tr is not None:
                tr.append(f"{name}({a},{b}) -> {r}")
            if not valid:
                if r != ("raise", "KeyError"):
                    raise _Fail("unionfind-model", f"{pfx}.{name}", f"{name}({a},{b}) on {nn} elements -> {r}, expected KeyError")
            else:
                was_same = m.same(a, b)
                if was_same:
                    st["reach.unionfind.union_within_class"] += 1
                else:
                    if len(m.members(m.label[a])) > 1 and len(m.members(m.label[b])) > 1:
                        st["reach.unionfind.union_of_merged_classes"] += 1
                    m.merge(a, b, rep if op == 3 else None)
                if r != ("ok", not was_same):
                    raise _Fail("unionfind-model", f"{pfx}.{name}", f"{name}({a},{b}) -> {r}, model says merged={not was_same}")
                if op == 3 and not was_same and rep is not None:
                    root = check_find(b, f"{pfx}.union_left")
                    if root != rep:
                        raise _Fail("unionfind-model", f"{pfx}.union_left", f"after union_left({a},{b}) representative is {root}, left representative was {rep}")
            st[f"call.{pfx}.{name}"] += 1
        elif op == 4:
            a, b = pick(), pick()
            r = _call(d.connected, ext(a), ext(b))
            if tr is not None:
                tr.append(f"connected({a},{b}) -> {r}")
            if 0 <= a < nn and 0 <= b < nn:
                if r != ("ok", m.same(a, b)):
                    raise _Fail("unionfind-model", f"{pfx}.connected", f"connected({a},{b}) -> {r}, model says {m.same(a, b)}")
            elif r != ("raise", "KeyError"):
                raise _Fail("unionfind-model", f"{pfx}.connected", f"connected({a},{b}) on {nn} elements -> {r}, expected KeyError")
            st[f"call.{pfx}.connected"] += 1
        elif op == 5:
            r = _call(lambda: list(d.roots()))
            if r[0] != "ok":
                raise _Fail("unionfind-model", f"{pfx}.roots", f"roots() raised {r[1]}")
            roots = [back(v) for v in r[1]]
            if tr is not None:
                tr.append(f"roots() -> {sorted(x for x in roots if x is not None)}")
            labs = []
            for x in roots:
                if x is None or not 0 <= x < nn:
                    raise _Fail("unionfind-model", f"{pfx}.roots", f"roots() contains a non-member {x}")
                labs.append(m.label[x])
                known = m.rep[m.label[x]]
                if known is not None and known != x:
                    raise _Fail("unionfind-model", f"{pfx}.roots", f"roots() lists {x} but the representative of its class is {known}")
            if sorted(labs) != sorted(m.rep):
                raise _Fail("unionfind-model", f"{pfx}.roots", f"roots() has {len(roots)} entries for {m.classes()} classes (or a class twice)")
            for x in roots:
                assert x is not None
                m.rep[m.label[x]] = x
            st[f"call.{pfx}.roots"] += 1
        elif op == 6:
            r = _call(len, d) if generic else _call(d.value_count)
            if tr is not None:
                tr.append(f"count() -> {r}")
            if r != ("ok", nn):
                raise _Fail("unionfind-model", f"{pfx}.value_count", f"count -> {r}, expected {nn}")
            st[f"call.{pfx}.count"] += 1
        elif op == 8:
            # str(): the partition written as {representative: [members in insertion order]}
            r = _call(str, d)
            groups: dict[Any, list[Any]] = {}
            for i in range(nn):
                root = check_find(i, f"{pfx}.find")
                groups.setdefault(vals[root], []).append(vals[i])
            if tr is not None:
                tr.append(f"str() -> {r[1] if r[0] == 'ok' else r}")
            if r != ("ok", str(groups)):
                raise _Fail("unionfind-model", f"{pfx}.__str__", f"str() -> {r}, the partition is {groups}")
            st[f"call.{pfx}.__str__"] += 1
        else:
            # full sweep: every member reports the same, member, representative
            for i in range(nn):
                check_find(i, f"{pfx}.find")
            if tr is not None:
                tr.append("sweep")
            st[f"call.{pfx}.sweep"] += 1
        calls += 1
    nn = len(m.label)
    for i in range(nn):
        check_find(i, f"{pfx}.find")
    for i in range(nn):
        for j in range(i + 1, nn):
            r = _call(d.connected, ext(i), ext(j))
            if r != ("ok", m.same(i, j)):
                raise _Fail("unionfind-model", f"{pfx}.connected", f"final: connected({i},{j}) -> {r}, model says {m.same(i, j)}")
    return calls


# ---------------------------------------------------------------------------
# ScopedDict
# ---------------------------------------------------------------------------

_VALUES: tuple[Any, ...] = (0, "", False, None, 1, "x")
_MISSING = object()


def run_scoped(cfg: Stream, h: Stream, n: int, tr: list[str] | None, st: Counter[str]) -> int:
    nkeys = 1 + cfg.choice(4)
    keys = ["k", 0, ("t",), "z"][:nkeys]
    scopes: list[ScopedDict[Any, Any]] = [ScopedDict(name="root")]
    model: list[tuple[int | None, dict[Any, Any]]] = [(None, {})]

    def resolve(si: int, k: Any) -> Any:
        cur: int | None = si
        depth = 0
        while cur is not None:
            par, dd = model[cur]
            if k in dd:
                if depth > 0:
                    st["reach.scoped.resolved_in_outer_scope"] += 1
                return dd[k]
            cur = par
            depth += 1
        return _MISSING

    def shadowed_falsy(si: int, k: Any) -> bool:
        par, dd = model[si]
        return k in dd and not dd[k] and par is not None and resolve(par, k) is not _MISSING

    calls = 0
    for step in h.iter_steps(n):
        op = h.weighted((2, 5, 3, 3, 3, 3, 1))
        si = h.choice(len(scopes))
        k = keys[h.choice(nkeys)]
        d = scopes[si]
        if op == 0:
            if len(scopes) >= 6:
                continue
            if h.flag(1, 3):
                # a scope created around initial local bindings
                init = {keys[h.choice(nkeys)]: _VALUES[h.choice(len(_VALUES))] for _ in range(h.choice(3))}
                scopes.append(ScopedDict(d, name=f"s{len(scopes)}", local_scope=dict(init)))
                model.append((si, dict(init)))
                if tr is not None:
                    tr.append(f"s{len(scopes) - 1} = ScopedDict(s{si}, local_scope={init!r})")
            else:
                scopes.append(ScopedDict(d))
                model.append((si, {}))
                if tr is not None:
                    tr.append(f"s{len(scopes) - 1} = ScopedDict(s{si})")
            st["call.ScopedDict.__init__"] += 1
        elif op == 1:
            v = _VALUES[h.choice(len(_VALUES))]
            r = _call(d.__setitem__, k, v)
            model[si][1][k] = v
            if tr is not None:
                tr.append(f"s{si}[{k!r}] = {v!r}")
            if r != ("ok", None):
                raise _Fail("scoped-model", "ScopedDict.__setitem__", f"s{si}[{k!r}] = {v!r} -> {r}")
            st["call.ScopedDict.__setitem__"] += 1
            if shadowed_falsy(si, k):
                st["reach.scoped.falsy_value_shadows_outer"] += 1
        elif op == 6:
            r = _call(lambda: dict(d.local_scope))
            if tr is not None:
                tr.append(f"dict(s{si}.local_scope) -> {r}")
            if r[0] != "ok" or r[1] != model[si][1] or any(r[1][kk] is not vv and r[1][kk] != vv for kk, vv in model[si][1].items()) or d.parent is not (scopes[model[si][0]] if model[si][0] is not None else None):
                raise _Fail("scoped-model", "ScopedDict.local_scope", f"s{si}.local_scope / parent -> {r}, the scope holds {model[si][1]!r}")
            st["call.ScopedDict.local_scope"] += 1
        else:
            exp = resolve(si, k)
            if op == 2:
                r = _call(d.__getitem__, k)
                want = ("raise", "KeyError") if exp is _MISSING else ("ok", exp)
                form = f"s{si}[{k!r}]"
                name = "ScopedDict.__getitem__"
            elif op == 3:
                r = _call(d.get, k)
                want = ("ok", None) if exp is _MISSING else ("ok", exp)
                form = f"s{si}.get({k!r})"
                name = "ScopedDict.get"
            elif op == 4:
                dflt = ("dflt", step)
                r = _call(d.get, k, dflt)
                want = ("ok", dflt) if exp is _MISSING else ("ok", exp)
                form = f"s{si}.get({k!r}, default)"
                name = "ScopedDict.get"
            else:
                r = _call(d.__contains__, k)
                want = ("ok", exp is not _MISSING)
                form = f"{k!r} in s{si}"
                name = "ScopedDict.__contains__"
            if tr is not None:
                tr.append(f"{form} -> {r}")
            same = r[0] == want[0] and (r[1] is want[1] or (r[1] == want[1] and type(r[1]) is type(want[1])))
            if not same:
                raise _Fail(
                    "scoped-model",
                    name,
                    f"{form} -> {r}, innermost defining scope gives {want}",
                )
            st[f"call.{name}"] += 1
        calls += 1
    return calls


# ---------------------------------------------------------------------------


@register
class DsEngine(Engine):
    prop = "C12"
    engine_name = "dssim"
    level = "exploration"
    tiers = {
        "quick": {"runs": 600_000, "wall_cap_s": 240, "samples": 4},
        "thorough": {"runs": 12_000_000, "wall_cap_s": 1700, "samples": 4},
    }
    shrink_order = ("hist", "cfg")

    def run(self, ch: Chooser, trace: bool) -> RunResult:
        cfg = ch.stream("cfg")
        h = ch.stream("hist")
        res = RunResult()
        tr: list[str] | None = [] if trace else None
        m = cfg.choice(len(MACHINES))
        n = 1 + cfg.choice(60)
        machine = MACHINES[m]
        if tr is not None:
            tr.append(f"machine {machine}")
        st = res.stats
        st[f"machine.{machine}"] += 1
        try:
            if machine == "worklist":
                calls = run_worklist(cfg, h, n, tr, st)
            elif machine == "intds":
                calls = run_unionfind(False, cfg, h, n, tr, st)
            elif machine == "ds":
                calls = run_unionfind(True, cfg, h, n, tr, st)
            else:
                calls = run_scoped(cfg, h, n, tr, st)
        except _Fail as f:
            calls = len(h.steps)
            res.violation = Violation(f.oracle, f.call, calls, f.detail, f"{f.oracle}:{f.call}")
            if tr is not None:
                tr.append(f"VIOLATION {f.oracle} {f.call}: {f.detail}")
        res.steps = calls
        res.nontrivial = calls >= 8
        res.fingerprint = zlib.crc32(repr((m, cfg.steps, h.steps)).encode()) | (calls << 32)
        res.trace = tr
        return res

    def rule(self) -> str:
        return (
            "one case = one seeded history of <=60 public calls on one container "
            "(Worklist / IntDisjointSet / DisjointSet / ScopedDict tree), every return value "
            "compared with the abstract model; non-trivial = at least 8 executed calls; "
            "distinct = distinct (machine, configuration, call-and-argument sequence)"
        )

    def assumptions(self) -> list[str]:
        return [
            "no fault or schedule dimension exists for these single-caller in-memory containers; "
            "this check is the sequential reference-model core of the technique only",
            "DisjointSet.add of a value that is already present is not issued (unstated precondition)",
            "a class representative is assumed stable between unions (find never changes the root)",
        ]

    def components(self) -> dict[str, list[str]]:
        return {
            "real": [
                "xdsl.utils.worklist.Worklist",
                "xdsl.utils.disjoint_set.IntDisjointSet",
                "xdsl.utils.disjoint_set.DisjointSet",
                "xdsl.utils.scoped_dict.ScopedDict",
            ],
            "simulated": [],
            "stub": [],
        }

    def evidence_extra(self, stats: Counter[str], tier: str) -> dict[str, Any]:
        return {
            "calls_by_kind": {k[5:]: v for k, v in sorted(stats.items()) if k.startswith("call.")},
            "reach_probes": {k[6:]: v for k, v in sorted(stats.items()) if k.startswith("reach.")},
            "faults_injected": {
                "invalid_argument (out-of-range element)": stats.get("fault.unionfind.out_of_range_arg", 0),
                "note": "no other fault kind applies to these containers",
            },
            "runs_per_machine": {k[8:]: v for k, v in sorted(stats.items()) if k.startswith("machine.")},
        }
