"""
C25 -- the real dataflow solver under a seeded scheduler (DESIGN.md 3.6).

``solver._worklist`` (a FIFO deque in the shipped code) is replaced by
:class:`SchedDeque`: which pending ``(program point, analysis)`` item is processed next
is decided by the run's PRNG.  Pending items are put in a canonical order (creation
number of the op, index of the analysis) before the choice, which removes the
address-dependent order of the shipped ``set`` iterations from the picture.
Further dimensions: analysis load order, late delivery of boundary ("returned from a
public function") events through ``set_to_exit_state`` while the solver runs, duplicate
delivery of already processed items.  Enqueue loss is not injected (not promised).
"""

from __future__ import annotations

import random
import zlib
from collections import Counter
from typing import Any

from xdsl.analysis.dataflow import DataFlowSolver, ProgramPoint
from xdsl.analysis.dead_code_analysis import DeadCodeAnalysis, Executable
from xdsl.analysis.liveness_analysis import Liveness, LivenessAnalysis
from xdsl.context import Context
from xdsl.dialects import func
from xdsl.dialects.builtin import ModuleOp, UnitAttr, UnregisteredOp, i32
from xdsl.dialects.test import (
    TestAllocatableOp,
    TestOp,
    TestPureOp,
    TestReadOp,
    TestRegisterType,
    TestTermOp,
    TestWriteOp,
)
from xdsl.ir import Block, Operation, Region, SSAValue

from simverif.kernel import Chooser, Engine, HarnessError, RunResult, Stream, Violation, register

from xdsl.irdl import IRDLOperation, irdl_op_definition, traits_def, var_operand_def, var_result_def  # noqa: E402
from xdsl.traits import (  # noqa: E402
    EffectInstance,
    IsTerminator,
    MemoryAllocEffect,
    MemoryEffect,
    MemoryEffectKind,
    MemoryFreeEffect,
    MemoryReadEffect,
    MemoryWriteEffect,
    NoMemoryEffect,
    Pure,
    SymbolOpInterface,
)


@irdl_op_definition
class SimPureTermOp(IRDLOperation):
    """Harness op: no memory effects but a terminator (must not count as removable)."""

    name = "simverif.pure_term"
    res = var_result_def()
    ops = var_operand_def()
    traits = traits_def(IsTerminator(), Pure())


@irdl_op_definition
class SimPureSymbolOp(IRDLOperation):
    """Harness op: no memory effects but a symbol op (must not count as removable)."""

    name = "simverif.pure_symbol"
    res = var_result_def()
    ops = var_operand_def()
    traits = traits_def(SymbolOpInterface(), Pure())


@irdl_op_definition
class SimAllocOp(IRDLOperation):
    """Harness op: allocates something that is not one of its own results (observable)."""

    name = "simverif.alloc"
    res = var_result_def()
    ops = var_operand_def()
    traits = traits_def(MemoryAllocEffect())


@irdl_op_definition
class SimFreeOp(IRDLOperation):
    """Harness op: frees (observable)."""

    name = "simverif.free"
    res = var_result_def()
    ops = var_operand_def()
    traits = traits_def(MemoryFreeEffect())


class SimMaybeOpaqueEffect(MemoryEffect):
    """Cannot conclude (None) for instances marked `opaque`, no effect otherwise."""

    @classmethod
    def get_effects(cls, op: Operation):
        return None if "opaque" in op.attributes else frozenset()


@irdl_op_definition
class SimTwoEffectOp(IRDLOperation):
    """Harness op with two effect interfaces: a read, and one that may be inconclusive
    (then the op has unknown effects and must not count as removable)."""

    name = "simverif.two_effects"
    res = var_result_def()
    ops = var_operand_def()
    traits = traits_def(MemoryReadEffect(), SimMaybeOpaqueEffect())


class SimAllocOnValueEffect(MemoryEffect):
    """An allocation *on a value*: the first operand for instances marked `on_operand`
    (observable: the value lives outside the op), else the op's own first result (harmless)."""

    @classmethod
    def get_effects(cls, op: Operation):
        if "on_operand" in op.attributes and op.operands:
            return {EffectInstance(MemoryEffectKind.ALLOC, value=op.operands[0])}
        if op.results:
            return {EffectInstance(MemoryEffectKind.ALLOC, value=op.results[0])}
        return {EffectInstance(MemoryEffectKind.ALLOC)}


@irdl_op_definition
class SimAllocOnValueOp(IRDLOperation):
    name = "simverif.alloc_on_value"
    res = var_result_def()
    ops = var_operand_def()
    traits = traits_def(SimAllocOnValueEffect())


def _mk_dyn_op() -> type[IRDLOperation]:
    """A fresh op class (per run) without effects; the run may later *add* a write effect
    to the class with the public ``OpTraits.add_trait`` - ops of the class analysed after
    that are not removable any more."""

    @irdl_op_definition
    class SimDynOp(IRDLOperation):
        name = "simverif.dyn"
        res = var_result_def()
        ops = var_operand_def()
        traits = traits_def(NoMemoryEffect())

    return SimDynOp


_UNREG = UnregisteredOp.with_name("simverif_unregistered.op")
_REG_FREE = TestRegisterType.unallocated()
_REG_A0 = TestRegisterType.from_name("a0")
_REG_A1 = TestRegisterType.from_name("a1")

# removability re-stated from the trait definitions (independent of
# xdsl.transforms.dead_code_elimination.would_be_trivially_dead)
OPS = (
    (TestPureOp, True, "pure"),
    (TestReadOp, True, "read"),
    (TestWriteOp, False, "write"),
    (TestOp, False, "unknown-effects"),
    (TestTermOp, False, "terminator"),
    (SimPureTermOp, False, "pure-terminator"),
    (SimPureSymbolOp, False, "pure-symbol"),
    (SimAllocOp, False, "alloc"),
    (SimFreeOp, False, "free"),
    (_UNREG, False, "unregistered"),
    # effects decided per *instance*: writes a register iff a result register is allocated
    (TestAllocatableOp, None, "register-allocatable"),
    (SimTwoEffectOp, None, "two-effect-interfaces"),
    (SimAllocOnValueOp, None, "alloc-on-value"),
    (None, None, "dynamic-traits"),
)
OP_WEIGHTS = (12, 4, 4, 4, 2, 1, 1, 1, 1, 1, 5, 2, 2, 2)
POLICIES = ("fifo", "lifo", "random", "starve", "newest-of-oldest")
LOADS = ("liveness+hand-marked", "deadcode,liveness", "liveness,deadcode", "liveness,liveness+hand-marked")


class SchedDeque:
    """Drop-in for the solver's deque: append / popleft / __len__, seeded pop order."""

    def __init__(self, s: Stream, policy: str, key, on_pop=None):
        self.s = s
        self.policy = policy
        self.key = key
        self.on_pop = on_pop
        self.pending: list[tuple[int, int, Any]] = []  # (epoch, seq, item)
        self.seq = 0
        self.epoch = 0
        self.pops = 0
        self.order: list[int] = []
        self.seen: list[Any] = []
        self.seen_keys: set[Any] = set()
        self.starved: Any = None
        self.filler: Any = None
        self.more_events = False
        self.dups = 0

    def append(self, item: Any) -> None:
        self.pending.append((self.epoch, self.seq, item))
        self.seq += 1

    def __len__(self) -> int:
        return len(self.pending) + (1 if self.more_events else 0)

    def _canon(self) -> list[tuple[int, int, Any]]:
        return sorted(self.pending, key=lambda t: (t[0], self.key(t[2]), t[1]))

    def popleft(self) -> Any:
        self.s.begin_step()
        self.epoch += 1
        if self.on_pop is not None:
            self.on_pop(self)
        if not self.pending:
            # only late events were outstanding: hand the solver a harmless item
            return self.filler
        c = self._canon()
        n = len(c)
        pol = self.policy
        if pol == "fifo":
            i = 0
        elif pol == "lifo":
            i = n - 1
        elif pol == "random":
            i = self.s.choice(n)
        elif pol == "starve":
            cand = [j for j in range(n) if self.key(c[j][2])[0] != self.starved]
            i = cand[self.s.choice(len(cand))] if cand else self.s.choice(n)
        else:  # newest of the k oldest
            k = min(n, 3)
            i = self.s.choice(k)
        picked = c[i]
        self.pending.remove(picked)
        self.pops += 1
        item = picked[2]
        k = self.key(item)
        self.order.append(zlib.crc32(repr(k).encode()))
        if k not in self.seen_keys:
            self.seen_keys.add(k)
            self.seen.append(item)
        return item


def _sched_selftest() -> list[str]:
    """SchedDeque conserves items (every appended item is popped exactly once)."""
    fails: list[str] = []
    for seed in range(20):
        rng = random.Random(seed)
        for pol in POLICIES:
            st = Stream("t", rng, None)
            d = SchedDeque(st, pol, key=lambda x: (x, 0))
            d.starved = 3
            inn: Counter[int] = Counter()
            out: Counter[int] = Counter()
            for _ in range(200):
                if rng.random() < 0.55 or not len(d):
                    x = rng.randrange(8)
                    d.append(x)
                    inn[x] += 1
                else:
                    out[d.popleft()] += 1
                if len(d) != sum(inn.values()) - sum(out.values()):
                    fails.append(f"SchedDeque({pol}): len mismatch")
                    break
            while len(d):
                out[d.popleft()] += 1
            if inn != out:
                fails.append(f"SchedDeque({pol}): items not conserved")
    return fails


@register
class SolverEngine(Engine):
    prop = "C25"
    engine_name = "solversim"
    level = "exploration"
    tiers = {
        "quick": {"runs": 250_000, "wall_cap_s": 300, "samples": 2},
        "thorough": {"runs": 8_000_000, "wall_cap_s": 1750, "samples": 2},
    }
    shrink_order = ("sched", "cfg")
    no_delete = ("cfg",)

    def selftests(self) -> list[str]:
        return _sched_selftest()

    def run(self, ch: Chooser, trace: bool) -> RunResult:
        cfg = ch.stream("cfg")
        sch = ch.stream("sched")
        res = RunResult()
        st = res.stats
        tr: list[str] | None = [] if trace else None

        load = cfg.choice(len(LOADS))
        with_dca = load in (1, 2)
        # one solver analyses 1 root (usual) or 2-3 roots one after the other (solver reuse)
        n_roots = 1 + ((1 + cfg.choice(2)) if cfg.flag(1, 6) else 0)

        dyn_cls = _mk_dyn_op()
        # solver reuse only: the write effect is added to the dynamic class before this root is analysed
        dyn_change_before = (1 + cfg.choice(n_roots - 1)) if n_roots > 1 and cfg.flag(1, 2) else None
        values: list[SSAValue] = []
        vname: dict[int, str] = {}
        ops: list[Operation] = []
        removable: dict[int, bool] = {}
        opnum: dict[int, int] = {}
        all_blocks: list[Block] = []
        exec_status: dict[int, int] = {}  # id(block) -> 1 executable from the start, 2 made executable late, 0 never
        roots: list[dict[str, Any]] = []
        for ri in range(n_roots):
            n_ops = 1 + cfg.choice(25 if n_roots == 1 else 12)
            rkind = cfg.weighted((3, 2, 1))  # builtin.module / public func.func / private func.func
            n_args = cfg.weighted((4, 2, 1))
            entry = Block(arg_types=[i32] * n_args)
            blocks = [entry]
            exec_status[id(entry)] = 1
            extra = nested = None
            if cfg.flag(1, 5):
                extra = Block()
                blocks.append(extra)
                exec_status[id(extra)] = cfg.weighted((1, 3, 1))
            if not with_dca and cfg.flag(1, 6):
                # body of a nested builtin.module (an op with a region but no operands)
                nested = Block()
                blocks.append(nested)
                exec_status[id(nested)] = cfg.weighted((1, 3, 1))
            rvals: list[SSAValue] = list(entry.args)
            for i, a in enumerate(entry.args):
                vname[id(a)] = f"r{ri}.arg{i}" if n_roots > 1 else f"arg{i}"
            chain_bias = cfg.choice(3)
            pfx = f"r{ri}." if n_roots > 1 else ""
            for _ in range(n_ops):
                cls, rem, kind = OPS[cfg.weighted(OP_WEIGHTS)]
                k = min(len(rvals), cfg.weighted((1, 4, 3, 1)))
                operands = []
                for _k in range(k):
                    if chain_bias == 0 and rvals:
                        operands.append(rvals[len(rvals) - 1 - cfg.choice(min(3, len(rvals)))])
                    else:
                        operands.append(rvals[cfg.choice(len(rvals))])
                if k and cfg.flag(1, 6):
                    operands.append(operands[0])  # same value twice in one op
                nres = 0 if kind == "terminator" else cfg.weighted((1, 5, 2))
                if kind == "register-allocatable":
                    rtypes = [(_REG_FREE, _REG_FREE, _REG_A0, _REG_A1)[cfg.weighted((3, 2, 2, 1))] for _r in range(nres)]
                    op: Operation = TestAllocatableOp(operands, [], rtypes, [])
                    rem = not any(t.is_allocated for t in rtypes)
                    kind = f"register-allocatable[{','.join('alloc' if t.is_allocated else 'free' for t in rtypes)}]"
                    st["reach.allocatable_removable" if rem else "reach.allocatable_with_allocated_result"] += 1
                elif kind == "two-effect-interfaces":
                    opaque = cfg.flag(1, 2)
                    op = SimTwoEffectOp.create(operands=operands, result_types=[i32] * nres, attributes={"opaque": UnitAttr()} if opaque else {})
                    rem = not opaque
                    kind = "two-effect-interfaces[" + ("read+inconclusive" if opaque else "read+none") + "]"
                    st["reach.two_effects_inconclusive" if opaque else "reach.two_effects_conclusive"] += 1
                elif kind == "alloc-on-value":
                    on_operand = cfg.flag(1, 2)
                    op = SimAllocOnValueOp.create(operands=operands, result_types=[i32] * nres, attributes={"on_operand": UnitAttr()} if on_operand else {})
                    # harmless only when the allocated value is the op's own result
                    rem = bool(nres) and not (on_operand and operands)
                    kind = "alloc-on-value[" + ("operand" if on_operand and operands else "own-result" if nres else "no-value") + "]"
                    st["reach.alloc_on_outside_value" if not rem else "reach.alloc_on_own_result"] += 1
                elif kind == "dynamic-traits":
                    op = dyn_cls.create(operands=operands, result_types=[i32] * nres)
                    rem = not (dyn_change_before is not None and ri >= dyn_change_before)
                    kind = "dynamic-traits[" + ("pure" if rem else "write effect added to the class before this root") + "]"
                else:
                    op = cls.create(operands=operands, result_types=[i32] * nres)
                b = blocks[cfg.choice(len(blocks))]
                b.add_op(op)
                n = len(ops)
                ops.append(op)
                removable[id(op)] = bool(rem)
                opnum[id(op)] = n + 1
                for j, r in enumerate(op.results):
                    vname[id(r)] = f"{pfx}o{n}.{j}"
                    rvals.append(r)
                if tr is not None:
                    tr.append(f"{pfx}o{n} = {kind}({','.join(vname[id(v)] for v in operands)}) -> {nres} results, block {blocks.index(b)}")
            if nested is not None:
                nm = ModuleOp(Region([nested]))
                host = blocks[cfg.choice(2 if extra is not None else 1)]
                pos = cfg.choice(len(host.ops) + 1)
                if pos < len(host.ops):
                    host.insert_op_before(nm, list(host.ops)[pos])
                else:
                    host.add_op(nm)
                opnum[id(nm)] = 500 + ri
                st["reach.nested_module"] += 1
            region_blocks = [entry] + ([extra] if extra is not None else [])
            if rkind == 0:
                root: Operation = ModuleOp(Region(region_blocks))
            else:
                nret = min(len(rvals), cfg.weighted((1, 3, 2)))
                rets = [rvals[cfg.choice(len(rvals))] for _r in range(nret)]
                ret = func.ReturnOp(*rets)
                entry.add_op(ret)
                n = len(ops)
                ops.append(ret)
                removable[id(ret)] = False
                opnum[id(ret)] = n + 1
                root = func.FuncOp(f"f{ri}", ([i32] * n_args, [v.type for v in rets]), Region(region_blocks), "public" if rkind == 1 else "private")
                st["reach.func_root_" + ("public" if rkind == 1 else "private")] += 1
                if tr is not None:
                    tr.append(f"{pfx}o{n} = func.return({','.join(vname[id(v)] for v in rets)}) in {'public' if rkind == 1 else 'private'} func.func, block 0")
            opnum[id(root)] = 400 + ri
            all_blocks.extend(blocks)
            # seeds: preset before solving or delivered late through set_to_exit_state
            seeds: list[SSAValue] = []
            late: list[SSAValue] = []
            for v in rvals:
                if cfg.flag(1, 7):
                    (late if cfg.flag(1, 2) else seeds).append(v)
            values.extend(rvals)
            roots.append({"root": root, "blocks": blocks, "seeds": seeds, "late": late})

        # ---- reference: least fixpoint over the ops of executable blocks ------
        # (two bounds: an op of the dynamic class that was analysed *before* its class
        # gained the write effect may legitimately be visited again afterwards - a duplicate
        # delivery - and then counts as effectful; `live` is the lower bound, `live_hi` the
        # upper bound; they coincide unless the run adds the trait between two analyses)
        early_dyn = {id(o) for o in ops if dyn_change_before is not None and isinstance(o, dyn_cls) and removable[id(o)]}

        def fixpoint(extra_effectful: set[int]) -> tuple[set[int], int]:
            lv: set[int] = set()
            for r in roots:
                lv |= {id(v) for v in r["seeds"]} | {id(v) for v in r["late"]}
            changed = True
            n_rounds = 0
            while changed:
                changed = False
                n_rounds += 1
                for op in ops:
                    if not op._operands or op.parent is None or not exec_status[id(op.parent)]:
                        continue
                    if not removable[id(op)] or id(op) in extra_effectful or any(id(r) in lv for r in op.results):
                        for v in op._operands:
                            if id(v) not in lv:
                                lv.add(id(v))
                                changed = True
            return lv, n_rounds

        live, rounds = fixpoint(set())
        live_hi = fixpoint(early_dyn)[0] if early_dyn else live

        # ---- the real solver under the seeded scheduler ---------------------
        policy = POLICIES[cfg.choice(len(POLICIES))]
        dup_rate = (0, 8, 3)[cfg.choice(3)]
        solver = DataFlowSolver(Context())
        analyses: list[Any] = []
        hand_mark = load in (0, 3)
        if load == 0:
            analyses = [solver.load(LivenessAnalysis)]
        elif load == 1:
            analyses = [solver.load(DeadCodeAnalysis), solver.load(LivenessAnalysis)]
        elif load == 2:
            analyses = [solver.load(LivenessAnalysis), solver.load(DeadCodeAnalysis)]
        else:
            analyses = [solver.load(LivenessAnalysis), solver.load(LivenessAnalysis)]
        liveness = next(a for a in analyses if isinstance(a, LivenessAnalysis))
        anum = {id(a): i for i, a in enumerate(analyses)}
        block_index = {id(b): i for i, b in enumerate(all_blocks)}

        def key(item: Any) -> tuple[int, int]:
            point, analysis = item
            ent = point.entity
            if isinstance(ent, Operation):
                n = opnum.get(id(ent), -1)
            else:
                n = 1000 + block_index.get(id(ent), 999)
            return (n, anum.get(id(analysis), 9))

        pending_late: list[SSAValue] = []
        pending_blocks: list[Block] = []

        def on_pop(d: SchedDeque) -> None:
            # late events: a boundary value ("returned from a public function") or a block
            # becoming executable is discovered while the solver is already running
            while (pending_late or pending_blocks) and (not d.pending or sch.flag(1, 4)):
                if pending_blocks and (not pending_late or sch.flag(1, 2)):
                    b = pending_blocks.pop(0)
                    ex = solver.get_or_create_state(ProgramPoint.at_start_of_block(b), Executable)
                    solver.propagate_if_changed(ex, ex.set_to_live())
                    st["fault.late_block_executable_event"] += 1
                    if tr is not None:
                        tr.append(f"  late: block {block_index[id(b)]} becomes executable")
                else:
                    v = pending_late.pop(0)
                    liveness.set_to_exit_state(solver.get_or_create_state(v, Liveness))
                    st["fault.late_boundary_event"] += 1
                    if tr is not None:
                        tr.append(f"  late: set_to_exit_state({vname[id(v)]})")
                if d.pending:
                    break
            d.more_events = bool(pending_late or pending_blocks)
            # duplicate delivery of an item the solver has already processed
            if dup_rate and d.seen and d.dups < 3 * len(ops) + 10 and sch.flag(1, dup_rate):
                it = d.seen[sch.choice(len(d.seen))]
                d.append(it)
                d.dups += 1
                st["fault.duplicate_delivery"] += 1

        dq = SchedDeque(sch, policy, key, on_pop)
        dq.starved = 1 + cfg.choice(len(ops))
        solver._worklist = dq  # type: ignore[assignment]  # the seam (no hook needed)
        n_late = sum(len(r["late"]) for r in roots)
        bound = (len(ops) + len(values) + n_late + 3 * len(ops) + 12 + 4 * len(all_blocks)) * (len(values) + 3) * 2
        viol: Violation | None = None
        orig_popleft = dq.popleft

        def guarded_popleft() -> Any:
            if dq.pops > bound:
                raise _Spin()
            return orig_popleft()

        dq.popleft = guarded_popleft  # type: ignore[method-assign]
        if tr is not None:
            tr.append(f"load={LOADS[load]} policy={policy} dup_rate=1/{dup_rate} roots={n_roots}")
        for ri, r in enumerate(roots):
            root = r["root"]
            if dyn_change_before is not None and ri == dyn_change_before:
                # history: the class gains a write effect between two analyses
                dyn_cls.traits.add_trait(MemoryWriteEffect())
                st["fault.trait_added_between_analyses"] += 1
                if tr is not None:
                    tr.append("  simverif.dyn: add_trait(MemoryWriteEffect())")
            for bi, b in enumerate(r["blocks"]):
                stt = exec_status[id(b)]
                if (bi == 0 and hand_mark) or (bi > 0 and stt == 1):
                    solver.get_or_create_state(ProgramPoint.at_start_of_block(b), Executable).live = True
                elif bi > 0 and stt == 2:
                    pending_blocks.append(b)
            for v in r["seeds"]:
                solver.get_or_create_state(v, Liveness).is_live = True
            pending_late.extend(r["late"])
            dq.filler = (ProgramPoint.before(root), liveness)
            dq.more_events = bool(pending_late or pending_blocks)
            if tr is not None:
                tr.append(
                    f"root {ri} ({root.name}): seeds={[vname[id(v)] for v in r['seeds']]} late={[vname[id(v)] for v in r['late']]} "
                    f"blocks={[('entry' if i == 0 else {0: 'never-executable', 1: 'executable', 2: 'executable-late'}[exec_status[id(b)]]) for i, b in enumerate(r['blocks'])]}"
                )
            try:
                solver.initialize_and_run(root)
            except _Spin:
                viol = Violation("bounded-progress", "DataFlowSolver.initialize_and_run", dq.pops, f"more than {bound} pops for {len(ops)} ops / {len(values)} values: the solver does not converge", "bounded-progress:solver")
            except NotImplementedError as e:
                raise HarnessError(f"generated unsupported IR: {e}")
            except Exception as e:  # noqa: BLE001
                viol = Violation("solver-raised", "DataFlowSolver.initialize_and_run", dq.pops, f"{type(e).__name__} while solving supported IR", f"solver-raised:{type(e).__name__}")
            if viol is not None:
                break
            if pending_late or pending_blocks or len(dq.pending):
                raise HarnessError("scheduler left events undelivered")
            if ri > 0:
                st["reach.solver_reused_for_another_root"] += 1
        if viol is None:
            for v in values:
                s = solver.lookup_state(v, Liveness)
                got = s is not None and s.is_live
                exp = id(v) in live
                if got != exp and not (got and id(v) in live_hi):
                    viol = Violation(
                        "liveness-vs-reference",
                        "LivenessAnalysis",
                        dq.pops,
                        f"value {vname[id(v)]}: solver says {'live' if got else 'dead'}, reference fixpoint says {'live' if exp else 'dead'} "
                        f"(policy {policy}, load order {LOADS[load]}, {n_roots} root(s))",
                        "liveness-vs-reference:" + ("missed-live" if exp else "spurious-live"),
                    )
                    break
        if tr is not None:
            tr.append(f"pops={dq.pops} dups={dq.dups} live={sorted(vname[i] for i in live)}")
            if viol is not None:
                tr.append(f"VIOLATION {viol.oracle}: {viol.detail}")
        res.violation = viol
        res.steps = dq.pops
        st[f"policy.{policy}"] += 1
        st[f"load.{LOADS[load]}"] += 1
        st["pops"] += dq.pops
        st["pops_gt_ops" if dq.pops > len(ops) else "pops_le_ops"] += 1
        st["reach.fixpoint_rounds_ge3" if rounds >= 3 else "reach.fixpoint_rounds_lt3"] += 1
        if any(len(r["blocks"]) > 1 for r in roots):
            st["reach.more_than_one_block"] += 1
        if any(s == 0 for s in exec_status.values()):
            st["reach.non_executable_block"] += 1
        if live and len(live) < len(values):
            st["reach.mixed_live_and_dead"] += 1
        res.nontrivial = dq.pops > len(ops) or n_late > 0 or dq.dups > 0
        res.fingerprint = zlib.crc32(repr((cfg.steps, sch.steps)).encode())
        res.schedule_fp = zlib.crc32(repr(dq.order).encode()) ^ (len(dq.order) << 20)
        res.trace = tr
        return res

    def rule(self) -> str:
        return (
            "one case = one generated branch-free module (1-25 pure/read/write/unknown-effect/terminator ops, fan-in/out, dead "
            "chains) solved once by the real DataFlowSolver under one seeded schedule (pop policy, load order, late boundary "
            "events, duplicate deliveries); every value's Liveness compared with a reference least fixpoint; non-trivial = the "
            "solver popped more items than there are ops, or a late event / duplicate was delivered; distinct = distinct "
            "(program, schedule) choice sequences"
        )

    def assumptions(self) -> list[str]:
        return [
            "supported IR only: region-free, successor-free ops in executable blocks of a ModuleOp (others raise NotImplementedError in the shipped analysis)",
            "blocks are made executable by hand (as the unit tests do) or, for the entry block, by DeadCodeAnalysis",
            "enqueue loss is not injected; duplicate delivery and any pop order are",
        ]

    def components(self) -> dict[str, list[str]]:
        return {
            "real": [
                "xdsl.analysis.dataflow.DataFlowSolver",
                "xdsl.analysis.liveness_analysis.LivenessAnalysis / Liveness",
                "xdsl.analysis.sparse_analysis.SparseBackwardDataFlowAnalysis / PropagatingLattice",
                "xdsl.analysis.dead_code_analysis.DeadCodeAnalysis / Executable",
                "xdsl.transforms.dead_code_elimination.would_be_trivially_dead",
            ],
            "simulated": ["solver._worklist (SchedDeque: seeded pop order, duplicates, late events)"],
            "stub": [],
        }

    def evidence_extra(self, stats: Counter[str], tier: str) -> dict[str, Any]:
        return {
            "faults_injected": {
                "late_boundary_event": stats.get("fault.late_boundary_event", 0),
                "late_block_executable_event": stats.get("fault.late_block_executable_event", 0),
                "trait_added_to_an_op_class_between_two_analyses": stats.get("fault.trait_added_between_analyses", 0),
                "duplicate_delivery": stats.get("fault.duplicate_delivery", 0),
                "pop_order_perturbation_runs": sum(v for k, v in stats.items() if k.startswith("policy.") and k != "policy.fifo"),
            },
            "runs_by_policy": {k[7:]: v for k, v in sorted(stats.items()) if k.startswith("policy.")},
            "runs_by_load_order": {k[5:]: v for k, v in sorted(stats.items()) if k.startswith("load.")},
            "total_pops": stats.get("pops", 0),
            "runs_with_more_pops_than_ops": stats.get("pops_gt_ops", 0),
            "reach_probes": {k[6:]: v for k, v in sorted(stats.items()) if k.startswith("reach.")},
        }


class _Spin(Exception):
    pass
