"""
C25 -- the real dataflow solver under a seeded scheduler (DESIGN.md 3.6).

``solver._worklist`` (a FIFO deque in the shipped code) is replaced by
:class:`SchedDeque`: which pending ``(program point, analysis)`` item is processed next
is decided by the run's PRNG.  Pending items are put in a canonical order (creation
number of the op, index of the analysis) before the choice, which removes the
address-dependent order of the shipped ``set`` iterations from the picture.
Further dimensions: analysis load order, late delivery of boundary ("returned from a
public function") events through ``set_to_exit_state`` while the solver runs, duplicate
delivery of already processed items.  Enqueue loss is not injected (not promised).
"""

from __future__ import annotations

import random
import zlib
from collections import Counter
from typing import Any

from xdsl.analysis.dataflow import DataFlowSolver, ProgramPoint
from xdsl.analysis.dead_code_analysis import DeadCodeAnalysis, Executable
from xdsl.analysis.liveness_analysis import Liveness, LivenessAnalysis
from xdsl.context import Context
from xdsl.dialects.builtin import ModuleOp, i32
from xdsl.dialects.test import TestOp, TestPureOp, TestReadOp, TestTermOp, TestWriteOp
from xdsl.ir import Block, Operation, Region, SSAValue

from simverif.kernel import Chooser, Engine, HarnessError, RunResult, Stream, Violation, register

from xdsl.irdl import IRDLOperation, irdl_op_definition, traits_def, var_operand_def, var_result_def  # noqa: E402
from xdsl.traits import IsTerminator, Pure, SymbolOpInterface  # noqa: E402


@irdl_op_definition
class SimPureTermOp(IRDLOperation):
    """Harness op: no memory effects but a terminator (must not count as removable)."""

    name = "simverif.pure_term"
    res = var_result_def()
    ops = var_operand_def()
    traits = traits_def(IsTerminator(), Pure())


@irdl_op_definition
class SimPureSymbolOp(IRDLOperation):
    """Harness op: no memory effects but a symbol op (must not count as removable)."""

    name = "simverif.pure_symbol"
    res = var_result_def()
    ops = var_operand_def()
    traits = traits_def(SymbolOpInterface(), Pure())


# removability re-stated from the trait definitions (independent of
# xdsl.transforms.dead_code_elimination.would_be_trivially_dead)
OPS = (
    (TestPureOp, True, "pure"),
    (TestReadOp, True, "read"),
    (TestWriteOp, False, "write"),
    (TestOp, False, "unknown-effects"),
    (TestTermOp, False, "terminator"),
    (SimPureTermOp, False, "pure-terminator"),
    (SimPureSymbolOp, False, "pure-symbol"),
)
POLICIES = ("fifo", "lifo", "random", "starve", "newest-of-oldest")
LOADS = ("liveness+hand-marked", "deadcode,liveness", "liveness,deadcode", "liveness,liveness+hand-marked")


class SchedDeque:
    """Drop-in for the solver's deque: append / popleft / __len__, seeded pop order."""

    def __init__(self, s: Stream, policy: str, key, on_pop=None):
        self.s = s
        self.policy = policy
        self.key = key
        self.on_pop = on_pop
        self.pending: list[tuple[int, int, Any]] = []  # (epoch, seq, item)
        self.seq = 0
        self.epoch = 0
        self.pops = 0
        self.order: list[int] = []
        self.seen: list[Any] = []
        self.seen_keys: set[Any] = set()
        self.starved: Any = None
        self.filler: Any = None
        self.more_events = False
        self.dups = 0

    def append(self, item: Any) -> None:
        self.pending.append((self.epoch, self.seq, item))
        self.seq += 1

    def __len__(self) -> int:
        return len(self.pending) + (1 if self.more_events else 0)

    def _canon(self) -> list[tuple[int, int, Any]]:
        return sorted(self.pending, key=lambda t: (t[0], self.key(t[2]), t[1]))

    def popleft(self) -> Any:
        self.s.begin_step()
        self.epoch += 1
        if self.on_pop is not None:
            self.on_pop(self)
        if not self.pending:
            # only late events were outstanding: hand the solver a harmless item
            return self.filler
        c = self._canon()
        n = len(c)
        pol = self.policy
        if pol == "fifo":
            i = 0
        elif pol == "lifo":
            i = n - 1
        elif pol == "random":
            i = self.s.choice(n)
        elif pol == "starve":
            cand = [j for j in range(n) if self.key(c[j][2])[0] != self.starved]
            i = cand[self.s.choice(len(cand))] if cand else self.s.choice(n)
        else:  # newest of the k oldest
            k = min(n, 3)
            i = self.s.choice(k)
        picked = c[i]
        self.pending.remove(picked)
        self.pops += 1
        item = picked[2]
        k = self.key(item)
        self.order.append(zlib.crc32(repr(k).encode()))
        if k not in self.seen_keys:
            self.seen_keys.add(k)
            self.seen.append(item)
        return item


def _sched_selftest() -> list[str]:
    """SchedDeque conserves items (every appended item is popped exactly once)."""
    fails: list[str] = []
    for seed in range(20):
        rng = random.Random(seed)
        for pol in POLICIES:
            st = Stream("t", rng, None)
            d = SchedDeque(st, pol, key=lambda x: (x, 0))
            d.starved = 3
            inn: Counter[int] = Counter()
            out: Counter[int] = Counter()
            for _ in range(200):
                if rng.random() < 0.55 or not len(d):
                    x = rng.randrange(8)
                    d.append(x)
                    inn[x] += 1
                else:
                    out[d.popleft()] += 1
                if len(d) != sum(inn.values()) - sum(out.values()):
                    fails.append(f"SchedDeque({pol}): len mismatch")
                    break
            while len(d):
                out[d.popleft()] += 1
            if inn != out:
                fails.append(f"SchedDeque({pol}): items not conserved")
    return fails


@register
class SolverEngine(Engine):
    prop = "C25"
    engine_name = "solversim"
    level = "exploration"
    tiers = {
        "quick": {"runs": 250_000, "wall_cap_s": 300, "samples": 2},
        "thorough": {"runs": 8_000_000, "wall_cap_s": 1750, "samples": 2},
    }
    shrink_order = ("sched", "cfg")
    no_delete = ("cfg",)

    def selftests(self) -> list[str]:
        return _sched_selftest()

    def run(self, ch: Chooser, trace: bool) -> RunResult:
        cfg = ch.stream("cfg")
        sch = ch.stream("sched")
        res = RunResult()
        st = res.stats
        tr: list[str] | None = [] if trace else None

        # ---- generated program: one or two executable blocks, branch-free ----
        n_ops = 1 + cfg.choice(25)
        n_blocks = 1 + (1 if cfg.flag(1, 5) else 0)
        n_args = cfg.weighted((4, 2, 1))
        blocks = [Block(arg_types=[i32] * (n_args if b == 0 else 0)) for b in range(n_blocks)]
        values: list[SSAValue] = list(blocks[0].args)
        vname: dict[int, str] = {id(a): f"arg{i}" for i, a in enumerate(blocks[0].args)}
        ops: list[Operation] = []
        removable: dict[int, bool] = {}
        opnum: dict[int, int] = {}
        chain_bias = cfg.choice(3)
        for i in range(n_ops):
            cls, rem, kind = OPS[cfg.weighted((12, 4, 4, 4, 2, 1, 1))]
            k = min(len(values), cfg.weighted((1, 4, 3, 1)))
            operands = []
            for _ in range(k):
                if chain_bias == 0 and values:
                    operands.append(values[len(values) - 1 - cfg.choice(min(3, len(values)))])
                else:
                    operands.append(values[cfg.choice(len(values))])
            if k and cfg.flag(1, 6):
                operands.append(operands[0])  # same value twice in one op
            nres = 0 if kind == "terminator" else cfg.weighted((1, 5, 2))  # pure-terminator keeps results: they may be seeded live
            op = cls.create(operands=operands, result_types=[i32] * nres)
            b = blocks[cfg.choice(n_blocks)]
            b.add_op(op)
            ops.append(op)
            removable[id(op)] = rem
            opnum[id(op)] = i + 1
            for j, r in enumerate(op.results):
                vname[id(r)] = f"o{i}.{j}"
                values.append(r)
            if tr is not None:
                tr.append(f"o{i} = {kind}({','.join(vname[id(v)] for v in operands)}) -> {nres} results, block {blocks.index(b)}")
        module = ModuleOp(Region(blocks))
        opnum[id(module)] = 0

        # ---- seeds: preset or delivered late --------------------------------
        seeds: list[SSAValue] = []
        late: list[SSAValue] = []
        for v in values:
            if cfg.flag(1, 7):
                if cfg.flag(1, 2):
                    late.append(v)
                else:
                    seeds.append(v)

        # ---- reference: least fixpoint --------------------------------------
        live: set[int] = {id(v) for v in seeds} | {id(v) for v in late}
        changed = True
        rounds = 0
        while changed:
            changed = False
            rounds += 1
            for op in ops:
                if not op._operands:
                    continue
                if not removable[id(op)] or any(id(r) in live for r in op.results):
                    for v in op._operands:
                        if id(v) not in live:
                            live.add(id(v))
                            changed = True

        # ---- the real solver under the seeded scheduler ---------------------
        load = cfg.choice(len(LOADS))
        policy = POLICIES[cfg.choice(len(POLICIES))]
        dup_rate = (0, 8, 3)[cfg.choice(3)]
        solver = DataFlowSolver(Context())
        analyses: list[Any] = []
        hand_mark = load in (0, 3)
        if load == 0:
            analyses = [solver.load(LivenessAnalysis)]
        elif load == 1:
            analyses = [solver.load(DeadCodeAnalysis), solver.load(LivenessAnalysis)]
        elif load == 2:
            analyses = [solver.load(LivenessAnalysis), solver.load(DeadCodeAnalysis)]
        else:
            analyses = [solver.load(LivenessAnalysis), solver.load(LivenessAnalysis)]
        liveness = next(a for a in analyses if isinstance(a, LivenessAnalysis))
        anum = {id(a): i for i, a in enumerate(analyses)}
        # all blocks of the program are executable: by hand (as the unit tests do) or,
        # for the entry block, through DeadCodeAnalysis; a second block is always
        # marked by hand
        for bi, b in enumerate(blocks):
            if hand_mark or bi > 0:
                solver.get_or_create_state(ProgramPoint.at_start_of_block(b), Executable).live = True
        for v in seeds:
            solver.get_or_create_state(v, Liveness).is_live = True

        def key(item: Any) -> tuple[int, int]:
            point, analysis = item
            ent = point.entity
            if isinstance(ent, Operation):
                n = opnum.get(id(ent), -1)
            else:
                n = 1000 + blocks.index(ent) if ent in blocks else 2000
            return (n, anum.get(id(analysis), 9))

        pending_late = list(late)

        def on_pop(d: SchedDeque) -> None:
            # late boundary events: "returned from a public function" discovered late
            while pending_late and (not d.pending or sch.flag(1, 4)):
                v = pending_late.pop(0)
                liveness.set_to_exit_state(solver.get_or_create_state(v, Liveness))
                st["fault.late_boundary_event"] += 1
                if tr is not None:
                    tr.append(f"  late: set_to_exit_state({vname[id(v)]})")
                if d.pending:
                    break
            d.more_events = bool(pending_late)
            # duplicate delivery of an item the solver has already processed
            if dup_rate and d.seen and d.dups < 3 * n_ops + 10 and sch.flag(1, dup_rate):
                it = d.seen[sch.choice(len(d.seen))]
                d.append(it)
                d.dups += 1
                st["fault.duplicate_delivery"] += 1

        dq = SchedDeque(sch, policy, key, on_pop)
        dq.filler = (ProgramPoint.before(module), liveness)
        dq.more_events = bool(pending_late)
        dq.starved = 1 + cfg.choice(n_ops)
        solver._worklist = dq  # type: ignore[assignment]  # the seam (no hook needed)
        if tr is not None:
            tr.append(
                f"load={LOADS[load]} policy={policy} dup_rate=1/{dup_rate} seeds={[vname[id(v)] for v in seeds]} "
                f"late={[vname[id(v)] for v in late]}"
            )
        bound = (len(ops) + len(values) + len(late) + 3 * n_ops + 12) * (len(values) + 3) * 2
        viol: Violation | None = None
        orig_popleft = dq.popleft

        def guarded_popleft() -> Any:
            if dq.pops > bound:
                raise _Spin()
            return orig_popleft()

        dq.popleft = guarded_popleft  # type: ignore[method-assign]
        try:
            solver.initialize_and_run(module)
        except _Spin:
            viol = Violation("bounded-progress", "DataFlowSolver.initialize_and_run", dq.pops, f"more than {bound} pops for {len(ops)} ops / {len(values)} values: the solver does not converge", "bounded-progress:solver")
        except NotImplementedError as e:
            raise HarnessError(f"generated unsupported IR: {e}")
        except Exception as e:  # noqa: BLE001
            viol = Violation("solver-raised", "DataFlowSolver.initialize_and_run", dq.pops, f"{type(e).__name__} while solving supported IR", f"solver-raised:{type(e).__name__}")
        if viol is None and (pending_late or len(dq.pending)):
            raise HarnessError("scheduler left events undelivered")
        if viol is None:
            for v in values:
                s = solver.lookup_state(v, Liveness)
                got = s is not None and s.is_live
                exp = id(v) in live
                if got != exp:
                    viol = Violation(
                        "liveness-vs-reference",
                        "LivenessAnalysis",
                        dq.pops,
                        f"value {vname[id(v)]}: solver says {'live' if got else 'dead'}, reference fixpoint says {'live' if exp else 'dead'} "
                        f"(policy {policy}, load order {LOADS[load]})",
                        "liveness-vs-reference:" + ("missed-live" if exp else "spurious-live"),
                    )
                    break
        if tr is not None:
            tr.append(f"pops={dq.pops} dups={dq.dups} live={sorted(vname[i] for i in live)}")
            if viol is not None:
                tr.append(f"VIOLATION {viol.oracle}: {viol.detail}")
        res.violation = viol
        res.steps = dq.pops
        st[f"policy.{policy}"] += 1
        st[f"load.{LOADS[load]}"] += 1
        st["pops"] += dq.pops
        st["pops_gt_ops" if dq.pops > len(ops) else "pops_le_ops"] += 1
        st["reach.fixpoint_rounds_ge3" if rounds >= 3 else "reach.fixpoint_rounds_lt3"] += 1
        if n_blocks > 1:
            st["reach.two_blocks"] += 1
        if live and len(live) < len(values):
            st["reach.mixed_live_and_dead"] += 1
        res.nontrivial = dq.pops > len(ops) or bool(late) or dq.dups > 0
        res.fingerprint = zlib.crc32(repr((cfg.steps, sch.steps)).encode())
        res.schedule_fp = zlib.crc32(repr(dq.order).encode()) ^ (len(dq.order) << 20)
        res.trace = tr
        return res

    def rule(self) -> str:
        return (
            "one case = one generated branch-free module (1-25 pure/read/write/unknown-effect/terminator ops, fan-in/out, dead "
            "chains) solved once by the real DataFlowSolver under one seeded schedule (pop policy, load order, late boundary "
            "events, duplicate deliveries); every value's Liveness compared with a reference least fixpoint; non-trivial = the "
            "solver popped more items than there are ops, or a late event / duplicate was delivered; distinct = distinct "
            "(program, schedule) choice sequences"
        )

    def assumptions(self) -> list[str]:
        return [
            "supported IR only: region-free, successor-free ops in executable blocks of a ModuleOp (others raise NotImplementedError in the shipped analysis)",
            "blocks are made executable by hand (as the unit tests do) or, for the entry block, by DeadCodeAnalysis",
            "enqueue loss is not injected; duplicate delivery and any pop order are",
        ]

    def components(self) -> dict[str, list[str]]:
        return {
            "real": [
                "xdsl.analysis.dataflow.DataFlowSolver",
                "xdsl.analysis.liveness_analysis.LivenessAnalysis / Liveness",
                "xdsl.analysis.sparse_analysis.SparseBackwardDataFlowAnalysis / PropagatingLattice",
                "xdsl.analysis.dead_code_analysis.DeadCodeAnalysis / Executable",
                "xdsl.transforms.dead_code_elimination.would_be_trivially_dead",
            ],
            "simulated": ["solver._worklist (SchedDeque: seeded pop order, duplicates, late events)"],
            "stub": [],
        }

    def evidence_extra(self, stats: Counter[str], tier: str) -> dict[str, Any]:
        return {
            "faults_injected": {
                "late_boundary_event": stats.get("fault.late_boundary_event", 0),
                "duplicate_delivery": stats.get("fault.duplicate_delivery", 0),
                "pop_order_perturbation_runs": sum(v for k, v in stats.items() if k.startswith("policy.") and k != "policy.fifo"),
            },
            "runs_by_policy": {k[7:]: v for k, v in sorted(stats.items()) if k.startswith("policy.")},
            "runs_by_load_order": {k[5:]: v for k, v in sorted(stats.items()) if k.startswith("load.")},
            "total_pops": stats.get("pops", 0),
            "runs_with_more_pops_than_ops": stats.get("pops_gt_ops", 0),
            "reach_probes": {k[6:]: v for k, v in sorted(stats.items()) if k.startswith("reach.")},
        }


class _Spin(Exception):
    pass
