"""
Vocabulary of public IR-mutation calls for the irsim engine (DESIGN.md 3.1 / 3.2).

Every generator takes the generation context ``G`` and returns an :class:`Act` (or
``None`` when no suitable arguments exist).  ``g.faulty`` means: draw arguments
without respecting the *checked* preconditions (the call is then expected to raise,
possibly after mutating).  Unchecked preconditions stated in docstrings, calls that
would create a containment cycle, and calls on destroyed objects are never issued.
"""

from __future__ import annotations

from collections.abc import Callable
from dataclasses import dataclass, field
from typing import Any

from xdsl.builder import Builder
from xdsl.dialects.builtin import (
    FileLineColLoc,
    IndexType,
    IntAttr,
    StringAttr,
    UnitAttr,
    UnknownLoc,
    f32,
    i32,
    i64,
)
from xdsl.dialects.test import TestOp, TestPureOp, TestTermOp
from xdsl.ir import Block, BlockArgument, ErasedSSAValue, Operation, OpResult, Region, SSAValue
from xdsl.pattern_rewriter import PatternRewriter, PatternRewriterListener
from xdsl.rewriter import BlockInsertPoint, InsertPoint, Rewriter

from simverif.irsim.universe import Universe, is_ancestor_or_self
from simverif.kernel import Stream

TYPES = (i32, i64, IndexType(), f32)
ATTRS = (IntAttr(0), IntAttr(1), StringAttr("a"), UnitAttr(), StringAttr("b"))
LOCS = (
    UnknownLoc(),
    FileLineColLoc(StringAttr("a.mlir"), IntAttr(1), IntAttr(2)),
    FileLineColLoc(StringAttr("b.mlir"), IntAttr(7), IntAttr(1)),
)
KEYS = ("k0", "k1", "k2")
OPCLS = (TestOp, TestPureOp, TestTermOp)


class ListenerFault(Exception):
    """Raised by a harness listener at a seeded notification point."""


@dataclass
class CloneSpec:
    kind: str  # op.clone | op.clone_without_regions | region.clone | region.clone_into
    source: Any
    dest: Region | None = None
    index: int | None = None
    value_mapper: dict[SSAValue, SSAValue] | None = None
    block_mapper: dict[Block, Block] | None = None
    clone_operands: bool = True
    clone_name_hints: bool = True


@dataclass
class Act:
    name: str
    fn: Callable[[], Any]
    args: list[Any]
    desc: str
    kills: list[Any] = field(default_factory=list)
    kills_shallow: list[Any] = field(default_factory=list)
    clone: CloneSpec | None = None
    group: str = ""
    listener_fault_at: int = 0


def _first(*thunks: Callable[[], Any]) -> Any:
    """First thunk result that is not None (never the truth value of an IR object: an op
    class may define __len__ / __bool__)."""
    for t in thunks:
        x = t()
        if x is not None:
            return x
    return None


class G:
    """Generation context for one step."""

    def __init__(self, u: Universe, s: Stream, faulty: bool, max_ops: int):
        self.u = u
        self.s = s
        self.faulty = faulty
        self.max_ops = max_ops
        self.notifications = 0
        self.fault_at = 0

    # -- pickers -------------------------------------------------------------
    def pick(self, items: list[Any], pred: Callable[[Any], bool] | None = None) -> Any:
        c = items if pred is None else [x for x in items if pred(x)]
        if not c:
            return None
        return c[self.s.pos_choice(len(c))]

    def op(self, pred: Callable[[Operation], bool] | None = None) -> Operation | None:
        return self.pick(self.u.ops, pred)

    def block(self, pred: Callable[[Block], bool] | None = None) -> Block | None:
        return self.pick(self.u.blocks, pred)

    def region(self, pred: Callable[[Region], bool] | None = None) -> Region | None:
        return self.pick(self.u.regions, pred)

    def value(self, pred: Callable[[SSAValue], bool] | None = None) -> SSAValue | None:
        return self.pick(self.u.values(), pred)

    def some(self, picker: Callable[[], Any], kmax: int, distinct: bool = True) -> list[Any]:
        k = self.s.choice(kmax + 1)
        out: list[Any] = []
        for _ in range(k):
            x = picker()
            if x is None:
                break
            if distinct and any(x is y for y in out):
                continue
            out.append(x)
        return out

    def typ(self) -> Any:
        return TYPES[self.s.choice(len(TYPES))]

    def n(self, x: Any) -> str:
        return self.u.nm(x)

    def ns(self, xs: Any) -> str:
        return "[" + ",".join(self.u.nm(x) for x in xs) + "]"


# helpers -------------------------------------------------------------------


def detached_op(o: Operation) -> bool:
    return o.parent is None


def attached_op(o: Operation) -> bool:
    return o.parent is not None


def detached_block(b: Block) -> bool:
    return b.parent is None


def detached_region(r: Region) -> bool:
    return r.parent is None


def block_len(b: Block) -> int:
    n = 0
    o = b._first_op
    while o is not None and n < 10000:
        n += 1
        o = o._next_op
    return n


def region_len(r: Region) -> int:
    n = 0
    b = r._first_block
    while b is not None and n < 10000:
        n += 1
        b = b._next_block
    return n


GENERATORS: list[tuple[str, str, int, Callable[[G], Act | None]]] = []


def gen(name: str, group: str, weight: int = 2):
    def deco(f: Callable[[G], Act | None]):
        GENERATORS.append((name, group, weight, f))
        return f

    return deco


# ---------------------------------------------------------------------------
# creation
# ---------------------------------------------------------------------------


@gen("Operation.create", "create", 8)
def _create_op(g: G) -> Act | None:
    if len(g.u.ops) >= g.max_ops:
        return None
    cls = OPCLS[g.s.weighted((3, 2, 1))]
    operands = g.some(lambda: g.value(), 3, distinct=False)
    rtypes = [g.typ() for _ in range(g.s.weighted((2, 4, 2, 1)))]
    succs = g.some(lambda: g.block(), 2, distinct=False) if g.s.flag(1, 5) else []
    nreg = g.s.weighted((6, 2, 1))
    if g.faulty and g.s.flag(1, 4):
        regions = g.some(lambda: g.region(), 2, distinct=False)
    else:
        regions = []
        for _ in range(nreg):
            r = g.region(lambda r: r.parent is None and all(r is not x for x in regions))
            if r is not None and g.s.flag(1, 2):
                regions.append(r)
    attrs = {}
    if g.s.flag(1, 3):
        attrs[KEYS[g.s.choice(len(KEYS))]] = ATTRS[g.s.choice(len(ATTRS))]
    props = {}
    if g.s.flag(1, 4):
        props["prop1"] = ATTRS[g.s.choice(len(ATTRS))]
    loc = LOCS[g.s.weighted((2, 1, 1))]
    return Act(
        "Operation.create",
        lambda: cls.create(operands=operands, result_types=rtypes, successors=succs, regions=regions, attributes=attrs, properties=props, location=loc),
        [*operands, *succs, *regions],
        f"{cls.__name__}.create(operands={g.ns(operands)}, results={len(rtypes)}, successors={g.ns(succs)}, regions={g.ns(regions)}, attrs={sorted(attrs)}, props={sorted(props)})",
    )


@gen("Block.__init__", "create", 4)
def _create_block(g: G) -> Act | None:
    if len(g.u.blocks) >= g.max_ops:
        return None
    if g.faulty and g.s.flag(1, 4):
        ops = g.some(lambda: g.op(), 3, distinct=False)
    else:
        ops = g.some(lambda: g.op(detached_op), 3) if g.s.flag(1, 2) else []
    atypes = [g.typ() for _ in range(g.s.weighted((3, 3, 1)))]
    lazy = g.s.flag(1, 4)
    arg: Any = _lazy(ops) if lazy else ops
    targ: Any = _lazy(atypes) if lazy else atypes
    return Act(
        "Block.__init__",
        lambda: Block(arg, arg_types=targ),
        list(ops),
        f"Block({'iter(' if lazy else ''}{g.ns(ops)}{')' if lazy else ''}, arg_types={len(atypes)})",
    )


@gen("Region.__init__", "create", 3)
def _create_region(g: G) -> Act | None:
    if len(g.u.regions) >= g.max_ops:
        return None
    if g.faulty and g.s.flag(1, 4):
        blocks = g.some(lambda: g.block(), 3, distinct=False)
    else:
        blocks = g.some(lambda: g.block(detached_block), 3) if g.s.flag(2, 3) else []
    single = len(blocks) == 1 and g.s.flag(1, 2)
    lazy = not single and g.s.flag(1, 4)
    arg: Any = _lazy(blocks) if lazy else blocks
    return Act(
        "Region.__init__",
        (lambda: Region(blocks[0])) if single else (lambda: Region(arg)),
        list(blocks),
        f"Region({g.n(blocks[0]) if single else ('iter(' + g.ns(blocks) + ')' if lazy else g.ns(blocks))})",
    )


# ---------------------------------------------------------------------------
# Block op-list API
# ---------------------------------------------------------------------------


def _new_op_for(g: G, b: Block) -> Operation | None:
    """A detached op that may legally be inserted into b (or anything when faulty)."""
    if g.faulty:
        return g.op()
    return g.op(lambda o: o.parent is None and not is_ancestor_or_self(o, b))


@gen("Block.add_op", "blocklist", 6)
def _add_op(g: G) -> Act | None:
    # bias to empty blocks: a detached op with stale links shows there
    b = g.block(lambda b: b._first_op is None) if g.s.flag(1, 3) else None
    b = b if b is not None else g.block()
    if b is None:
        return None
    o = _new_op_for(g, b)
    if o is None:
        return None
    return Act("Block.add_op", lambda: b.add_op(o), [b, o], f"{g.n(b)}.add_op({g.n(o)})")


@gen("Block.add_ops", "blocklist", 2)
def _add_ops(g: G) -> Act | None:
    b = g.block()
    if b is None:
        return None
    ops = g.some(lambda: _new_op_for(g, b), 3, distinct=not g.faulty)
    if g.s.flag(1, 3):
        arg = _lazy(ops)
        return Act("Block.add_ops", lambda: b.add_ops(arg), [b, *ops], f"{g.n(b)}.add_ops(iter({g.ns(ops)}))")
    return Act("Block.add_ops", lambda: b.add_ops(ops), [b, *ops], f"{g.n(b)}.add_ops({g.ns(ops)})")


def _existing(g: G, b: Block) -> Operation | None:
    if g.faulty and g.s.flag(1, 2):
        return g.op()
    return g.op(lambda o: o.parent is b)


@gen("Block.insert_op_before", "blocklist", 5)
def _ins_before(g: G) -> Act | None:
    b = _first(lambda: g.block(lambda b: b._first_op is not None), g.block)
    if b is None:
        return None
    ex = _existing(g, b)
    o = _new_op_for(g, b)
    if ex is None or o is None:
        return None
    return Act("Block.insert_op_before", lambda: b.insert_op_before(o, ex), [b, o, ex], f"{g.n(b)}.insert_op_before({g.n(o)}, {g.n(ex)})")


@gen("Block.insert_op_after", "blocklist", 5)
def _ins_after(g: G) -> Act | None:
    b = _first(lambda: g.block(lambda b: b._first_op is not None), g.block)
    if b is None:
        return None
    ex = _existing(g, b)
    o = _new_op_for(g, b)
    if ex is None or o is None:
        return None
    return Act("Block.insert_op_after", lambda: b.insert_op_after(o, ex), [b, o, ex], f"{g.n(b)}.insert_op_after({g.n(o)}, {g.n(ex)})")


@gen("Block.insert_ops_before", "blocklist", 2)
def _ins_ops_before(g: G) -> Act | None:
    b = _first(lambda: g.block(lambda b: b._first_op is not None), g.block)
    if b is None:
        return None
    ex = _existing(g, b)
    if ex is None:
        return None
    ops = g.some(lambda: _new_op_for(g, b), 3, distinct=not g.faulty)
    arg: Any = tuple(ops) if g.s.flag(1, 3) else ops
    return Act("Block.insert_ops_before", lambda: b.insert_ops_before(arg, ex), [b, ex, *ops], f"{g.n(b)}.insert_ops_before({g.ns(ops)}, {g.n(ex)})")


@gen("Block.insert_ops_after", "blocklist", 2)
def _ins_ops_after(g: G) -> Act | None:
    b = _first(lambda: g.block(lambda b: b._first_op is not None), g.block)
    if b is None:
        return None
    ex = _existing(g, b)
    if ex is None:
        return None
    ops = g.some(lambda: _new_op_for(g, b), 3, distinct=not g.faulty)
    arg: Any = tuple(ops) if g.s.flag(1, 3) else ops
    return Act("Block.insert_ops_after", lambda: b.insert_ops_after(arg, ex), [b, ex, *ops], f"{g.n(b)}.insert_ops_after({g.ns(ops)}, {g.n(ex)})")


@gen("Block.detach_op", "blocklist", 5)
def _detach_op(g: G) -> Act | None:
    b = _first(lambda: g.block(lambda b: b._first_op is not None), g.block)
    if b is None:
        return None
    o = _existing(g, b)
    if o is None:
        return None
    return Act("Block.detach_op", lambda: b.detach_op(o), [b, o], f"{g.n(b)}.detach_op({g.n(o)})")


@gen("Operation.detach", "blocklist", 3)
def _op_detach(g: G) -> Act | None:
    o = g.op() if g.faulty else g.op(attached_op)
    if o is None:
        return None
    return Act("Operation.detach", lambda: o.detach(), [o], f"{g.n(o)}.detach()")


def _unused(o: Operation) -> bool:
    return all(r.first_use is None for r in o.results)


@gen("Block.erase_op", "erase", 3)
def _erase_op(g: G) -> Act | None:
    b = _first(lambda: g.block(lambda b: b._first_op is not None), g.block)
    if b is None:
        return None
    safe = not g.s.flag(1, 3)
    if g.faulty:
        o = _existing(g, b)
    else:
        o = g.op(lambda o: o.parent is b and (not safe or _unused(o)))
    if o is None:
        return None
    return Act("Block.erase_op", lambda: b.erase_op(o, safe_erase=safe), [b, o], f"{g.n(b)}.erase_op({g.n(o)}, safe_erase={safe})", kills=[o])


@gen("Operation.erase", "erase", 2)
def _op_erase(g: G) -> Act | None:
    safe = not g.s.flag(1, 3)
    if g.faulty:
        o = g.op()
    else:
        o = g.op(lambda o: o.parent is None and (not safe or _unused(o)))
    if o is None:
        return None
    return Act("Operation.erase", lambda: o.erase(safe_erase=safe), [o], f"{g.n(o)}.erase(safe_erase={safe})", kills=[o])


@gen("Block.split_before", "blocklist", 4)
def _split(g: G) -> Act | None:
    if g.faulty:
        b = g.block()
        o = g.op()
    else:
        b = g.block(lambda b: b.parent is not None and b._first_op is not None)
        o = g.op(lambda o: o.parent is b) if b is not None else None
    if b is None or o is None:
        return None
    atypes = [g.typ() for _ in range(g.s.weighted((4, 2, 1)))]
    return Act("Block.split_before", lambda: b.split_before(o, arg_types=atypes), [b, o], f"{g.n(b)}.split_before({g.n(o)}, arg_types={len(atypes)})")


# ---------------------------------------------------------------------------
# block arguments
# ---------------------------------------------------------------------------


@gen("Block.insert_arg", "blockargs", 3)
def _insert_arg(g: G) -> Act | None:
    b = g.block()
    if b is None:
        return None
    n = len(b._args)
    idx = g.s.pos_choice(n + 1)
    if g.faulty:
        idx = (-1, n + 1, n + 2)[g.s.choice(3)]
    t = g.typ()
    loc = LOCS[g.s.choice(len(LOCS))] if g.s.flag(1, 2) else None
    return Act("Block.insert_arg", lambda: b.insert_arg(t, idx, loc), [b], f"{g.n(b)}.insert_arg(type, {idx})")


@gen("Block.erase_arg", "blockargs", 3)
def _erase_arg(g: G) -> Act | None:
    safe = not g.s.flag(1, 3)
    b = g.block(lambda b: len(b._args) > 0)
    if b is None:
        return None
    if g.faulty:
        ob = g.block(lambda x: len(x._args) > 0)
        assert ob is not None
        a = ob._args[g.s.pos_choice(len(ob._args))]
    else:
        cands = [a for a in b._args if not safe or a.first_use is None]
        if not cands:
            return None
        a = cands[g.s.pos_choice(len(cands))]
    return Act("Block.erase_arg", lambda: b.erase_arg(a, safe_erase=safe), [b, a], f"{g.n(b)}.erase_arg({g.n(a)}, safe_erase={safe})", kills_shallow=[a])


# ---------------------------------------------------------------------------
# operands / successors
# ---------------------------------------------------------------------------


@gen("Operation.operands=", "operands", 4)
def _set_operands(g: G) -> Act | None:
    o = g.op()
    if o is None:
        return None
    vals = g.some(lambda: g.value(), 4, distinct=False)
    if vals and g.s.flag(1, 4):
        # include a value already used by o (remove/add of the same use list)
        vals = list(o._operands[:1]) + vals

    def run() -> None:
        o.operands = vals

    return Act("Operation.operands=", run, [o, *vals], f"{g.n(o)}.operands = {g.ns(vals)}")


@gen("OpOperands.__setitem__", "operands", 5)
def _set_operand(g: G) -> Act | None:
    if g.faulty:
        o = g.op()
    else:
        o = g.op(lambda o: len(o._operands) > 0)
    v = g.value()
    if o is None or v is None:
        return None
    n = len(o._operands)
    idx = n + g.s.choice(2) if g.faulty or n == 0 else g.s.pos_choice(n)
    if n and g.s.flag(1, 5) and not g.faulty:
        v = o._operands[g.s.pos_choice(n)]  # same value into another / the same slot

    def run() -> None:
        o.operands[idx] = v

    return Act("OpOperands.__setitem__", run, [o, v], f"{g.n(o)}.operands[{idx}] = {g.n(v)}")


@gen("Operation.successors=", "successors", 3)
def _set_successors(g: G) -> Act | None:
    o = g.op()
    if o is None:
        return None
    bs = g.some(lambda: g.block(), 3, distinct=False)

    def run() -> None:
        o.successors = bs

    return Act("Operation.successors=", run, [o, *bs], f"{g.n(o)}.successors = {g.ns(bs)}")


@gen("OpSuccessors.__setitem__", "successors", 3)
def _set_successor(g: G) -> Act | None:
    if g.faulty:
        o = g.op()
    else:
        o = g.op(lambda o: len(o._successors) > 0)
    b = g.block()
    if o is None or b is None:
        return None
    n = len(o._successors)
    idx = n + g.s.choice(2) if g.faulty or n == 0 else g.s.pos_choice(n)

    def run() -> None:
        o.successors[idx] = b

    return Act("OpSuccessors.__setitem__", run, [o, b], f"{g.n(o)}.successors[{idx}] = {g.n(b)}")


# ---------------------------------------------------------------------------
# regions of an op
# ---------------------------------------------------------------------------


@gen("Operation.add_region", "regions", 4)
def _add_region(g: G) -> Act | None:
    o = g.op()
    if o is None:
        return None
    # add_region does not check ancestry: never pass a region that contains o
    if g.faulty:
        r = g.region(lambda r: not is_ancestor_or_self(r, o))
    else:
        r = g.region(lambda r: r.parent is None and not is_ancestor_or_self(r, o))
    if r is None:
        return None
    return Act("Operation.add_region", lambda: o.add_region(r), [o, r], f"{g.n(o)}.add_region({g.n(r)})")


@gen("Operation.detach_region", "regions", 3)
def _detach_region(g: G) -> Act | None:
    if g.faulty:
        o = g.op()
        if o is None:
            return None
        if g.s.flag(1, 2):
            idx = len(o.regions) + g.s.choice(2)
            return Act("Operation.detach_region", lambda: o.detach_region(idx), [o], f"{g.n(o)}.detach_region({idx})")
        r = g.region()
        if r is None:
            return None
        return Act("Operation.detach_region", lambda: o.detach_region(r), [o, r], f"{g.n(o)}.detach_region({g.n(r)})")
    o = g.op(lambda o: len(o.regions) > 0)
    if o is None:
        return None
    idx = g.s.pos_choice(len(o.regions))
    if g.s.flag(1, 2):
        return Act("Operation.detach_region", lambda: o.detach_region(idx), [o, o.regions[idx]], f"{g.n(o)}.detach_region({idx})")
    r = o.regions[idx]
    return Act("Operation.detach_region", lambda: o.detach_region(r), [o, r], f"{g.n(o)}.detach_region({g.n(r)})")


# ---------------------------------------------------------------------------
# Region block-list API
# ---------------------------------------------------------------------------


def _new_blocks_for(g: G, r: Region, kmax: int) -> list[Block]:
    if g.faulty:
        return g.some(lambda: g.block(), kmax, distinct=False)
    return g.some(lambda: g.block(lambda b: b.parent is None and not is_ancestor_or_self(b, r)), kmax)


def _lazy(items: list[Any]) -> Any:
    """A single-pass, side-effect-free generator over ``items`` (a legal ``Iterable``)."""
    return (x for x in list(items))


def _one_or_list(g: G, blocks: list[Block]) -> tuple[Any, str]:
    if len(blocks) == 1 and g.s.flag(1, 2):
        return blocks[0], g.n(blocks[0])
    k = g.s.choice(3)
    if k == 1:
        return tuple(blocks), "(" + g.ns(blocks)[1:-1] + ")"
    if k == 2:
        return _lazy(blocks), "iter(" + g.ns(blocks) + ")"
    return blocks, g.ns(blocks)


@gen("Region.add_block", "regionlist", 5)
def _add_block(g: G) -> Act | None:
    r = g.region(lambda r: r._first_block is None) if g.s.flag(1, 3) else None
    r = r if r is not None else g.region()
    if r is None:
        return None
    blocks = _new_blocks_for(g, r, 3)
    arg, d = _one_or_list(g, blocks)
    return Act("Region.add_block", lambda: r.add_block(arg), [r, *blocks], f"{g.n(r)}.add_block({d})")


def _target(g: G, r: Region) -> Block | None:
    if g.faulty and g.s.flag(1, 2):
        return g.block()
    return g.block(lambda b: b.parent is r)


@gen("Region.insert_block_before", "regionlist", 5)
def _ins_block_before(g: G) -> Act | None:
    r = _first(lambda: g.region(lambda r: r._first_block is not None), g.region)
    if r is None:
        return None
    t = _target(g, r)
    if t is None:
        return None
    blocks = _new_blocks_for(g, r, 3)
    arg, d = _one_or_list(g, blocks)
    return Act("Region.insert_block_before", lambda: r.insert_block_before(arg, t), [r, t, *blocks], f"{g.n(r)}.insert_block_before({d}, {g.n(t)})")


@gen("Region.insert_block_after", "regionlist", 4)
def _ins_block_after(g: G) -> Act | None:
    r = _first(lambda: g.region(lambda r: r._first_block is not None), g.region)
    if r is None:
        return None
    # insert_block_after does not check that target is in r: documented use only
    t = g.block(lambda b: b.parent is r)
    if t is None:
        return None
    blocks = _new_blocks_for(g, r, 3)
    arg, d = _one_or_list(g, blocks)
    return Act("Region.insert_block_after", lambda: r.insert_block_after(arg, t), [r, t, *blocks], f"{g.n(r)}.insert_block_after({d}, {g.n(t)})")


@gen("Region.insert_block", "regionlist", 4)
def _ins_block(g: G) -> Act | None:
    r = g.region()
    if r is None:
        return None
    n = region_len(r)
    idx = g.s.pos_choice(n + 1)
    if g.faulty and g.s.flag(1, 2):
        idx = n + 1 + g.s.choice(2)
    blocks = _new_blocks_for(g, r, 3)
    arg, d = _one_or_list(g, blocks)
    return Act("Region.insert_block", lambda: r.insert_block(arg, idx), [r, *blocks], f"{g.n(r)}.insert_block({d}, {idx})")


@gen("Region.detach_block", "regionlist", 4)
def _detach_block(g: G) -> Act | None:
    if g.faulty:
        r = g.region()
        if r is None:
            return None
        if g.s.flag(1, 2):
            idx = region_len(r) + g.s.choice(2)
            return Act("Region.detach_block", lambda: r.detach_block(idx), [r], f"{g.n(r)}.detach_block({idx})")
        b = g.block()
        if b is None:
            return None
        return Act("Region.detach_block", lambda: r.detach_block(b), [r, b], f"{g.n(r)}.detach_block({g.n(b)})")
    r = g.region(lambda r: r._first_block is not None)
    if r is None:
        return None
    n = region_len(r)
    idx = g.s.pos_choice(n)
    b = r.blocks[idx]
    if g.s.flag(1, 2):
        if g.s.flag(1, 3):
            idx = idx - n  # negative index form
        return Act("Region.detach_block", lambda: r.detach_block(idx), [r, b], f"{g.n(r)}.detach_block({idx})")
    return Act("Region.detach_block", lambda: r.detach_block(b), [r, b], f"{g.n(r)}.detach_block({g.n(b)})")


def _block_safe_erasable(g: G, b: Block) -> bool:
    """safe_erase of a block succeeds iff no result of a direct child op has a user
    outside the block (users inside drop their uses first)."""
    inside = {id(x) for x in g.u.closure(b)}
    o = b._first_op
    n = 0
    while o is not None and n < 10000:
        n += 1
        for r in o.results:
            use = r.first_use
            k = 0
            while use is not None and k < 10000:
                k += 1
                if id(use._operation) not in inside:
                    return False
                use = use._next_use
        o = o._next_op
    return True


@gen("Region.erase_block", "erase", 2)
def _erase_block(g: G) -> Act | None:
    safe = not g.s.flag(1, 3)
    if g.faulty:
        r = g.region()
        b = g.block()
    else:
        r = g.region(lambda r: r._first_block is not None)
        b = g.block(lambda b: b.parent is r and (not safe or _block_safe_erasable(g, b))) if r is not None else None
    if r is None or b is None:
        return None
    return Act("Region.erase_block", lambda: r.erase_block(b, safe_erase=safe), [r, b], f"{g.n(r)}.erase_block({g.n(b)}, safe_erase={safe})", kills=[b])


@gen("Block.erase", "erase", 2)
def _block_erase(g: G) -> Act | None:
    safe = not g.s.flag(1, 3)
    if g.faulty:
        b = g.block()
    else:
        b = g.block(lambda b: b.parent is None and (not safe or _block_safe_erasable(g, b)))
    if b is None:
        return None
    return Act("Block.erase", lambda: b.erase(safe_erase=safe), [b], f"{g.n(b)}.erase(safe_erase={safe})", kills=[b])


@gen("Region.move_blocks", "regionlist", 4)
def _move_blocks(g: G) -> Act | None:
    r = g.region(lambda r: r._first_block is not None) if g.s.flag(3, 4) else g.region()
    if r is None:
        return None
    # move_blocks checks only dest is not self; a dest nested in r would build a cycle
    if g.faulty:
        d = r
    else:
        d = g.region(lambda d: d is not r and not is_ancestor_or_self(r, d))
    if d is None:
        return None
    return Act("Region.move_blocks", lambda: r.move_blocks(d), [r, d], f"{g.n(r)}.move_blocks({g.n(d)})")


@gen("Region.move_blocks_before", "regionlist", 4)
def _move_blocks_before(g: G) -> Act | None:
    r = g.region(lambda r: r._first_block is not None) if g.s.flag(3, 4) else g.region()
    if r is None:
        return None
    if g.faulty:
        t = g.block(lambda b: b.parent is r or b.parent is None)
    else:
        t = g.block(lambda b: b.parent is not None and b.parent is not r and not is_ancestor_or_self(r, b))
    if t is None:
        return None
    return Act("Region.move_blocks_before", lambda: r.move_blocks_before(t), [r, t], f"{g.n(r)}.move_blocks_before({g.n(t)})")


# ---------------------------------------------------------------------------
# values
# ---------------------------------------------------------------------------


@gen("SSAValue.replace_all_uses_with", "values", 5)
def _rauw(g: G) -> Act | None:
    v = g.value(lambda v: v.first_use is not None) if g.s.flag(3, 4) else g.value()
    w = g.value()
    if v is None or w is None:
        return None
    if g.s.flag(1, 10):
        w = v
    return Act("SSAValue.replace_all_uses_with", lambda: v.replace_all_uses_with(w), [v, w], f"{g.n(v)}.replace_all_uses_with({g.n(w)})")


def _use_pred(mask: int) -> Callable[[Any], bool]:
    def pred(use: Any) -> bool:
        return bool((mask >> (use.index % 4)) & 1)

    return pred


@gen("SSAValue.replace_uses_with_if", "values", 3)
def _ruwi(g: G) -> Act | None:
    v = g.value(lambda v: v.first_use is not None) if g.s.flag(3, 4) else g.value()
    w = g.value()
    if v is None or w is None:
        return None
    mask = g.s.choice(16)
    return Act("SSAValue.replace_uses_with_if", lambda: v.replace_uses_with_if(w, _use_pred(mask)), [v, w], f"{g.n(v)}.replace_uses_with_if({g.n(w)}, index%4 in mask {mask:04b})")


@gen("SSAValue.erase", "values", 2)
def _value_erase(g: G) -> Act | None:
    safe = not g.s.flag(1, 2)
    if g.faulty:
        v = g.value()
    else:
        v = g.value(lambda v: not safe or v.first_use is None)
    if v is None:
        return None
    return Act("SSAValue.erase", lambda: v.erase(safe_erase=safe), [v], f"{g.n(v)}.erase(safe_erase={safe})")


@gen("name_hint=", "values", 1)
def _name_hint(g: G) -> Act | None:
    x = g.value() if g.s.flag(2, 3) else g.block()
    if x is None:
        return None
    name = ("a", "x_1", "1bad", None)[g.s.choice(4)] if g.faulty else ("a", "x_1", None)[g.s.choice(3)]

    def run() -> None:
        x.name_hint = name

    return Act("name_hint=", run, [x], f"{g.n(x)}.name_hint = {name!r}")


# ---------------------------------------------------------------------------
# insertion points
# ---------------------------------------------------------------------------


def _insert_point(g: G, forbid_inside: Any = None) -> tuple[Callable[[], InsertPoint], list[Any], str] | None:
    """A thunk building an InsertPoint (built inside the call so that its checks are
    part of the call), the objects involved, and a description."""
    k = g.s.choice(4)

    def ok_block(b: Block) -> bool:
        return forbid_inside is None or not is_ancestor_or_self(forbid_inside, b)

    if k < 2:
        if g.faulty:
            o = g.op(lambda o: o.parent is None or ok_block(o.parent))
        else:
            o = g.op(lambda o: o.parent is not None and ok_block(o.parent))
        if o is None:
            return None
        if k == 0:
            return (lambda: InsertPoint.before(o)), [o], f"InsertPoint.before({g.n(o)})"
        return (lambda: InsertPoint.after(o)), [o], f"InsertPoint.after({g.n(o)})"
    b = g.block(ok_block)
    if b is None:
        return None
    if k == 2:
        return (lambda: InsertPoint.at_start(b)), [b], f"InsertPoint.at_start({g.n(b)})"
    return (lambda: InsertPoint.at_end(b)), [b], f"InsertPoint.at_end({g.n(b)})"


def _block_insert_point(g: G, forbid_inside: Any = None) -> tuple[Callable[[], BlockInsertPoint], list[Any], str] | None:
    k = g.s.choice(4)

    def ok_region(r: Region) -> bool:
        return forbid_inside is None or (r is not forbid_inside and not is_ancestor_or_self(forbid_inside, r))

    if k < 2:
        if g.faulty:
            b = g.block(lambda b: b.parent is None or ok_region(b.parent))
        else:
            b = g.block(lambda b: b.parent is not None and ok_region(b.parent))
        if b is None:
            return None
        if k == 0:
            return (lambda: BlockInsertPoint.before(b)), [b], f"BlockInsertPoint.before({g.n(b)})"
        return (lambda: BlockInsertPoint.after(b)), [b], f"BlockInsertPoint.after({g.n(b)})"
    r = g.region(ok_region)
    if r is None:
        return None
    if k == 2:
        return (lambda: BlockInsertPoint.at_start(r)), [r], f"BlockInsertPoint.at_start({g.n(r)})"
    return (lambda: BlockInsertPoint.at_end(r)), [r], f"BlockInsertPoint.at_end({g.n(r)})"


def _ip_block(objs: list[Any]) -> Block | None:
    x = objs[0]
    return x.parent if isinstance(x, Operation) else x


def _new_ops_for_ip(g: G, objs: list[Any], kmax: int) -> list[Operation]:
    dest = _ip_block(objs)
    if g.faulty or dest is None:
        return g.some(lambda: g.op(), kmax, distinct=False)
    return g.some(lambda: g.op(lambda o: o.parent is None and not is_ancestor_or_self(o, dest)), kmax)


# ---------------------------------------------------------------------------
# static Rewriter
# ---------------------------------------------------------------------------


@gen("Rewriter.erase_op", "rewriter", 2)
def _rw_erase(g: G) -> Act | None:
    safe = not g.s.flag(1, 3)
    o = g.op() if g.faulty else g.op(lambda o: not safe or _unused(o))
    if o is None:
        return None
    return Act("Rewriter.erase_op", lambda: Rewriter.erase_op(o, safe_erase=safe), [o], f"Rewriter.erase_op({g.n(o)}, safe_erase={safe})", kills=[o])


def _replace_args(g: G, o: Operation) -> tuple[Any, list[Operation], list[SSAValue | None] | None, str]:
    b = o.parent
    if g.faulty or b is None:
        new_ops = g.some(lambda: g.op(), 3, distinct=False)
    else:
        new_ops = g.some(lambda: g.op(lambda x: x.parent is None and x is not o and not is_ancestor_or_self(x, b)), 3)
    mode = g.s.choice(3)
    new_results: list[SSAValue | None] | None
    if mode == 0:
        new_results = None
        if not g.faulty and new_ops and len(new_ops[-1].results) != len(o.results):
            mode = 1
        elif not g.faulty and not new_ops and len(o.results):
            mode = 1
    if mode != 0:
        new_results = []
        for _ in o.results:
            if g.s.flag(1, 5):
                new_results.append(None)
            else:
                new_results.append(g.value(lambda v: not (isinstance(v, OpResult) and v.op is o)))
        if g.faulty and g.s.flag(1, 2):
            new_results.append(None)
    arg: Any = new_ops
    d = g.ns(new_ops)
    if len(new_ops) == 1 and g.s.flag(1, 2):
        arg = new_ops[0]
        d = g.n(new_ops[0])
    rd = "None" if new_results is None else "[" + ",".join(g.n(v) for v in new_results) + "]"
    return arg, new_ops, new_results, f"{d}, new_results={rd}"


@gen("Rewriter.replace_op", "rewriter", 5)
def _rw_replace(g: G) -> Act | None:
    o = g.op() if g.faulty else g.op(attached_op)
    if o is None:
        return None
    safe = not g.s.flag(1, 4)
    arg, new_ops, new_results, d = _replace_args(g, o)
    vals = [v for v in (new_results or []) if v is not None]
    return Act(
        "Rewriter.replace_op",
        lambda: Rewriter.replace_op(o, arg, new_results, safe_erase=safe),
        [o, *new_ops, *vals],
        f"Rewriter.replace_op({g.n(o)}, {d}, safe_erase={safe})",
        kills=[o],
    )


def _retypable(g: G) -> SSAValue | None:
    return g.value()


@gen("Rewriter.replace_value_with_new_type", "rewriter", 4)
def _rw_retype(g: G) -> Act | None:
    v = _retypable(g)
    if v is None:
        return None
    t = g.typ()
    return Act("Rewriter.replace_value_with_new_type", lambda: Rewriter.replace_value_with_new_type(v, t), [v], f"Rewriter.replace_value_with_new_type({g.n(v)}, type)", kills_shallow=[v])


def _inline_block_args(g: G) -> tuple[Block, Callable[[], InsertPoint], list[Any], str, list[SSAValue]] | None:
    src = g.block()
    if src is None:
        return None
    # docstring: "The block should not be a parent of the operation" -> insertion
    # point never inside (or equal to) the source block
    ipt = _insert_point(g, forbid_inside=src)
    if ipt is None:
        return None
    mk, objs, d = ipt
    nargs = len(src._args)
    if g.faulty and g.s.flag(1, 2):
        vals = g.some(lambda: g.value(), nargs + 1, distinct=False)
    elif nargs and g.s.flag(3, 4):
        vals = []
        for _ in range(nargs):
            v = g.value(lambda v: not (isinstance(v, BlockArgument) and v.block is src))
            if v is None:
                vals = []
                break
            vals.append(v)
    else:
        vals = []
    return src, mk, objs, d, vals


@gen("Rewriter.inline_block", "rewriter", 5)
def _rw_inline_block(g: G) -> Act | None:
    t = _inline_block_args(g)
    if t is None:
        return None
    src, mk, objs, d, vals = t
    return Act(
        "Rewriter.inline_block",
        lambda: Rewriter.inline_block(src, mk(), vals),
        [src, *objs, *vals],
        f"Rewriter.inline_block({g.n(src)}, {d}, arg_values={g.ns(vals)})",
        kills_shallow=[src, *src._args],
    )


@gen("Rewriter.insert_block", "rewriter", 3)
def _rw_insert_block(g: G) -> Act | None:
    ipt = _block_insert_point(g)
    if ipt is None:
        return None
    mk, objs, d = ipt
    x = objs[0]
    r = x.parent if isinstance(x, Block) else x
    if r is None or g.faulty:
        blocks = g.some(lambda: g.block(), 3, distinct=False)
    else:
        blocks = g.some(lambda: g.block(lambda b: b.parent is None and not is_ancestor_or_self(b, r)), 3)
    arg, bd = _one_or_list(g, blocks)
    return Act("Rewriter.insert_block", lambda: Rewriter.insert_block(arg, mk()), [*objs, *blocks], f"Rewriter.insert_block({bd}, {d})")


@gen("Rewriter.insert_op", "rewriter", 4)
def _rw_insert_op(g: G) -> Act | None:
    ipt = _insert_point(g)
    if ipt is None:
        return None
    mk, objs, d = ipt
    ops = _new_ops_for_ip(g, objs, 3)
    arg: Any = ops
    od = g.ns(ops)
    if len(ops) == 1 and g.s.flag(1, 2):
        arg = ops[0]
        od = g.n(ops[0])
    return Act("Rewriter.insert_op", lambda: Rewriter.insert_op(arg, mk()), [*objs, *ops], f"Rewriter.insert_op({od}, {d})")


@gen("Rewriter.move_region_contents_to_new_regions", "rewriter", 2)
def _rw_move_region(g: G) -> Act | None:
    r = g.region()
    if r is None:
        return None
    return Act("Rewriter.move_region_contents_to_new_regions", lambda: Rewriter.move_region_contents_to_new_regions(r), [r], f"Rewriter.move_region_contents_to_new_regions({g.n(r)})")


@gen("Rewriter.inline_region", "rewriter", 4)
def _rw_inline_region(g: G) -> Act | None:
    r = g.region(lambda r: r._first_block is not None) if g.s.flag(3, 4) else g.region()
    if r is None:
        return None
    ipt = _block_insert_point(g, forbid_inside=None if g.faulty else r)
    if ipt is None:
        return None
    mk, objs, d = ipt
    x = objs[0]
    dest = x.parent if isinstance(x, Block) else x
    # never build a cycle: destination strictly inside r is forbidden even when faulty
    if dest is not None and dest is not r and is_ancestor_or_self(r, dest):
        return None
    return Act("Rewriter.inline_region", lambda: Rewriter.inline_region(r, mk()), [r, *objs], f"Rewriter.inline_region({g.n(r)}, {d})")


# ---------------------------------------------------------------------------
# PatternRewriter (with listeners and listener faults)
# ---------------------------------------------------------------------------


def _mk_rewriter(g: G, cur: Operation) -> PatternRewriter:
    rw = PatternRewriter(cur)

    def note(*_: Any) -> None:
        g.notifications += 1
        if g.fault_at and g.notifications == g.fault_at:
            raise ListenerFault()

    lst = PatternRewriterListener(
        operation_insertion_handler=[note],
        block_creation_handler=[note],
        operation_removal_handler=[note],
        operation_modification_handler=[note],
        operation_replacement_handler=[note],
    )
    rw.extend_from_listener(lst)
    return rw


def _pr(g: G, name: str, body: Callable[[PatternRewriter], Any], args: list[Any], desc: str, **kw: Any) -> Act | None:
    cur = g.op(attached_op) if not (g.faulty and g.s.flag(1, 4)) else g.op()
    if cur is None:
        return None
    g.fault_at = 0
    if g.s.flag(1, 6):
        g.fault_at = 1 + g.s.choice(4)

    def run() -> Any:
        g.notifications = 0
        rw = _mk_rewriter(g, cur)
        return body(rw)

    lf = f" [listener raises at notification {g.fault_at}]" if g.fault_at else ""
    return Act(name, run, [cur, *args], f"PatternRewriter({g.n(cur)}).{desc}{lf}", group="patternrewriter", listener_fault_at=g.fault_at, **kw)


@gen("PatternRewriter.insert", "patternrewriter", 4)
def _pr_insert(g: G) -> Act | None:
    if g.s.flag(1, 2):
        ipt = _insert_point(g)
        if ipt is None:
            return None
        mk, objs, d = ipt
        ops = _new_ops_for_ip(g, objs, 3)
    else:
        mk, objs, d = None, [], "None"
        ops = g.some(lambda: g.op(detached_op) if not g.faulty else g.op(), 3, distinct=not g.faulty)
    arg: Any = ops
    od = g.ns(ops)
    if len(ops) == 1 and g.s.flag(1, 2):
        arg, od = ops[0], g.n(ops[0])
    return _pr(g, "PatternRewriter.insert", lambda rw: rw.insert(arg, mk() if mk else None), [*objs, *ops], f"insert({od}, {d})")


@gen("PatternRewriter.erase", "patternrewriter", 3)
def _pr_erase(g: G) -> Act | None:
    safe = not g.s.flag(1, 3)
    o = g.op() if g.faulty else g.op(lambda o: not safe or _unused(o))
    if o is None:
        return None
    return _pr(g, "PatternRewriter.erase", lambda rw: rw.erase(o, safe_erase=safe), [o], f"erase({g.n(o)}, safe_erase={safe})", kills=[o])


@gen("PatternRewriter.replace", "patternrewriter", 6)
def _pr_replace(g: G) -> Act | None:
    o = g.op() if g.faulty else g.op(attached_op)
    if o is None:
        return None
    safe = not g.s.flag(1, 4)
    arg, new_ops, new_results, d = _replace_args(g, o)
    vals = [v for v in (new_results or []) if v is not None]
    return _pr(g, "PatternRewriter.replace", lambda rw: rw.replace(o, arg, new_results, safe_erase=safe), [o, *new_ops, *vals], f"replace({g.n(o)}, {d}, safe_erase={safe})", kills=[o])


@gen("PatternRewriter.replace_all_uses_with", "patternrewriter", 4)
def _pr_rauw(g: G) -> Act | None:
    v = g.value(lambda v: v.first_use is not None) if g.s.flag(3, 4) else g.value()
    if v is None:
        return None
    to_none = g.s.flag(1, 4)
    safe = not g.s.flag(1, 2)
    if to_none:
        if not g.faulty and safe and v.first_use is not None:
            safe = False
        return _pr(g, "PatternRewriter.replace_all_uses_with", lambda rw: rw.replace_all_uses_with(v, None, safe_erase=safe), [v], f"replace_all_uses_with({g.n(v)}, None, safe_erase={safe})")
    w = g.value()
    if w is None:
        return None
    return _pr(g, "PatternRewriter.replace_all_uses_with", lambda rw: rw.replace_all_uses_with(v, w), [v, w], f"replace_all_uses_with({g.n(v)}, {g.n(w)})")


@gen("PatternRewriter.replace_uses_with_if", "patternrewriter", 3)
def _pr_ruwi(g: G) -> Act | None:
    v = g.value(lambda v: v.first_use is not None) if g.s.flag(3, 4) else g.value()
    w = g.value()
    if v is None or w is None:
        return None
    mask = g.s.choice(16)
    return _pr(g, "PatternRewriter.replace_uses_with_if", lambda rw: rw.replace_uses_with_if(v, w, _use_pred(mask)), [v, w], f"replace_uses_with_if({g.n(v)}, {g.n(w)}, mask {mask:04b})")


@gen("PatternRewriter.replace_value_with_new_type", "patternrewriter", 3)
def _pr_retype(g: G) -> Act | None:
    v = _retypable(g)
    if v is None:
        return None
    t = g.typ()
    return _pr(g, "PatternRewriter.replace_value_with_new_type", lambda rw: rw.replace_value_with_new_type(v, t), [v], f"replace_value_with_new_type({g.n(v)}, type)", kills_shallow=[v])


@gen("PatternRewriter.insert_block_argument", "patternrewriter", 2)
def _pr_insert_arg(g: G) -> Act | None:
    b = g.block()
    if b is None:
        return None
    n = len(b._args)
    idx = g.s.pos_choice(n + 1) if not g.faulty else n + 1 + g.s.choice(2)
    t = g.typ()
    return _pr(g, "PatternRewriter.insert_block_argument", lambda rw: rw.insert_block_argument(b, idx, t), [b], f"insert_block_argument({g.n(b)}, {idx}, type)")


@gen("PatternRewriter.erase_block_argument", "patternrewriter", 3)
def _pr_erase_arg(g: G) -> Act | None:
    safe = not g.s.flag(1, 2)
    b = g.block(lambda b: len(b._args) > 0)
    if b is None:
        return None
    cands = [a for a in b._args if g.faulty or not safe or a.first_use is None]
    if not cands:
        return None
    a = cands[g.s.pos_choice(len(cands))]
    return _pr(g, "PatternRewriter.erase_block_argument", lambda rw: rw.erase_block_argument(a, safe_erase=safe), [a, b], f"erase_block_argument({g.n(a)}, safe_erase={safe})", kills_shallow=[a])


@gen("PatternRewriter.inline_block", "patternrewriter", 4)
def _pr_inline_block(g: G) -> Act | None:
    t = _inline_block_args(g)
    if t is None:
        return None
    src, mk, objs, d, vals = t
    return _pr(g, "PatternRewriter.inline_block", lambda rw: rw.inline_block(src, mk(), vals), [src, *objs, *vals], f"inline_block({g.n(src)}, {d}, arg_values={g.ns(vals)})", kills_shallow=[src, *src._args])


@gen("PatternRewriter.inline_region", "patternrewriter", 3)
def _pr_inline_region(g: G) -> Act | None:
    r = g.region(lambda r: r._first_block is not None) if g.s.flag(3, 4) else g.region()
    if r is None:
        return None
    ipt = _block_insert_point(g, forbid_inside=None if g.faulty else r)
    if ipt is None:
        return None
    mk, objs, d = ipt
    x = objs[0]
    dest = x.parent if isinstance(x, Block) else x
    if dest is not None and dest is not r and is_ancestor_or_self(r, dest):
        return None
    return _pr(g, "PatternRewriter.inline_region", lambda rw: rw.inline_region(r, mk()), [r, *objs], f"inline_region({g.n(r)}, {d})")


@gen("PatternRewriter.move_region_contents_to_new_regions", "patternrewriter", 2)
def _pr_move_region(g: G) -> Act | None:
    r = g.region()
    if r is None:
        return None
    return _pr(g, "PatternRewriter.move_region_contents_to_new_regions", lambda rw: rw.move_region_contents_to_new_regions(r), [r], f"move_region_contents_to_new_regions({g.n(r)})")


@gen("PatternRewriter.notify_op_modified", "patternrewriter", 1)
def _pr_notify(g: G) -> Act | None:
    o = g.op()
    if o is None:
        return None
    return _pr(g, "PatternRewriter.notify_op_modified", lambda rw: rw.notify_op_modified(o), [o], f"notify_op_modified({g.n(o)})")


@gen("PatternRewriter.create_block", "patternrewriter", 3)
def _pr_create_block(g: G) -> Act | None:
    ipt = _block_insert_point(g)
    if ipt is None:
        return None
    mk, objs, d = ipt
    atypes = [g.typ() for _ in range(g.s.weighted((3, 2, 1)))]
    return _pr(g, "PatternRewriter.create_block", lambda rw: rw.create_block(mk(), atypes), objs, f"create_block({d}, arg_types={len(atypes)})")


@gen("Builder.create_block", "rewriter", 2)
def _builder_create_block(g: G) -> Act | None:
    ipt = _block_insert_point(g)
    b0 = g.block()
    if ipt is None or b0 is None:
        return None
    mk, objs, d = ipt
    atypes = [g.typ() for _ in range(g.s.weighted((3, 2, 1)))]
    return Act("Builder.create_block", lambda: Builder(InsertPoint.at_end(b0)).create_block(mk(), atypes), [b0, *objs], f"Builder(at_end({g.n(b0)})).create_block({d}, arg_types={len(atypes)})")


# ---------------------------------------------------------------------------
# clone entry points (C02) and direct dictionary edits
# ---------------------------------------------------------------------------


def _clonable(g: G, node: Any) -> bool:
    """Clone sources exclude IR that no MLIR semantics admits: an operation with a
    successor that lies inside the cloned part but not in the operation's own region
    (the generic verifier rejects that for every op: "branching to a block of a
    different region"; clone maps successors of an op when the op is created).
    Successors outside the cloned part and forward references inside a region are kept."""
    objs = g.u.closure(node)
    inside = {id(x) for x in objs}
    for x in objs:
        if isinstance(x, Operation) and x._successors:
            for sb in x._successors:
                if id(sb) in inside and (x.parent is None or sb.parent is not x.parent.parent):
                    return False
    return True


def _mappers(g: G, src: Any) -> tuple[dict[Any, Any] | None, dict[Any, Any] | None, str]:
    """The caller's mapper dictionaries for one clone call: none (defaults), fresh empty
    ones, fresh ones pre-seeded with replacements for values / blocks defined *outside*
    the cloned part (the documented way to rewire a copy), or a pair kept from an
    earlier clone call of this run (entries that mention destroyed objects are purged by
    the caller first)."""
    k = g.s.weighted((4, 2, 2, 3))
    if k == 0:
        return None, None, ""
    if k == 1:
        vm: dict[Any, Any] = {}
        bm: dict[Any, Any] = {}
        d = "{}, {}"
    elif k == 2 or not g.u.mappers:
        inside = {id(x) for x in g.u.closure(src)}
        vm, bm = {}, {}
        outs_v = [v for v in g.u.values() if id(v) not in inside]
        outs_b = [b for b in g.u.blocks if id(b) not in inside]
        for _ in range(g.s.choice(4)):
            if outs_v:
                a, b2 = outs_v[g.s.choice(len(outs_v))], outs_v[g.s.choice(len(outs_v))]
                vm[a] = b2
        if outs_b and g.s.flag(1, 2):
            a3, b3 = outs_b[g.s.choice(len(outs_b))], outs_b[g.s.choice(len(outs_b))]
            bm[a3] = b3
        d = "{" + ",".join(f"{g.n(a)}:{g.n(b)}" for a, b in vm.items()) + "}, {" + ",".join(f"{g.n(a)}:{g.n(b)}" for a, b in bm.items()) + "}"
    else:
        i = g.s.choice(len(g.u.mappers))
        vm, bm = g.u.mappers[i]
        for dct in (vm, bm):
            for key in [key for key, val in dct.items() if g.u.is_dead(key) or g.u.is_dead(val) or isinstance(val, ErasedSSAValue)]:
                del dct[key]
        d = f"<mappers #{i} kept from an earlier clone: {len(vm)} values, {len(bm)} blocks>"
    if all(vm is not m[0] for m in g.u.mappers) and len(g.u.mappers) < 4:
        g.u.mappers.append((vm, bm))
    return vm, bm, d


def _clone_opts(g: G) -> tuple[dict[str, bool], str]:
    kw: dict[str, bool] = {}
    if g.s.flag(1, 8):
        kw["clone_operands"] = False
    if g.s.flag(1, 6):
        kw["clone_name_hints"] = False
    return kw, "".join(f", {k}={v}" for k, v in kw.items())


@gen("Operation.clone", "clone", 5)
def _clone_op(g: G) -> Act | None:
    if len(g.u.ops) >= 2 * g.max_ops:
        return None
    o = g.op(lambda o: len(o.regions) > 0) if g.s.flag(1, 2) else None
    o = o if o is not None else g.op()
    if o is None or not _clonable(g, o):
        return None
    vm, bm, d = _mappers(g, o)
    kw, kd = _clone_opts(g)
    spec = CloneSpec("op.clone", o, value_mapper=vm, block_mapper=bm, clone_operands=kw.get("clone_operands", True))
    if vm is None:
        return Act("Operation.clone", lambda: o.clone(**kw), [o], f"{g.n(o)}.clone({kd[2:]})", clone=spec, group="clone")
    return Act("Operation.clone", lambda: o.clone(vm, bm, **kw), [o, *vm.values(), *bm.values()], f"{g.n(o)}.clone({d}{kd})", clone=spec, group="clone")


@gen("Operation.clone_without_regions", "clone", 3)
def _clone_op_wo(g: G) -> Act | None:
    if len(g.u.ops) >= 2 * g.max_ops:
        return None
    o = g.op()
    if o is None:
        return None
    # everything but the op's own results is "outside" a region-less clone
    vm, bm, d = _mappers(g, None)
    kw, kd = _clone_opts(g)
    spec = CloneSpec("op.clone_without_regions", o, value_mapper=vm, block_mapper=bm, clone_operands=kw.get("clone_operands", True))
    if vm is None:
        return Act("Operation.clone_without_regions", lambda: o.clone_without_regions(**kw), [o], f"{g.n(o)}.clone_without_regions({kd[2:]})", clone=spec, group="clone")
    return Act("Operation.clone_without_regions", lambda: o.clone_without_regions(vm, bm, **kw), [o, *vm.values(), *bm.values()], f"{g.n(o)}.clone_without_regions({d}{kd})", clone=spec, group="clone")


@gen("Region.clone", "clone", 3)
def _clone_region(g: G) -> Act | None:
    if len(g.u.ops) >= 2 * g.max_ops:
        return None
    r = _first(lambda: g.region(lambda r: r._first_block is not None), g.region)
    if r is None or not _clonable(g, r):
        return None
    spec = CloneSpec("region.clone", r)
    return Act("Region.clone", lambda: r.clone(), [r], f"{g.n(r)}.clone()", clone=spec, group="clone")


@gen("Region.clone_into", "clone", 6)
def _clone_into(g: G) -> Act | None:
    if len(g.u.ops) >= 2 * g.max_ops:
        return None
    r = _first(lambda: g.region(lambda r: r._first_block is not None), g.region)
    if r is None or not _clonable(g, r):
        return None
    # valid: dest is not the source and not nested in it
    want_nonempty = g.s.flag(1, 2)
    d = None
    if want_nonempty:
        d = g.region(lambda d: d is not r and d._first_block is not None and not is_ancestor_or_self(r, d))
    if d is None:
        d = g.region(lambda d: d is not r and not is_ancestor_or_self(r, d))
    if d is None:
        return None
    n = region_len(d)
    mode = g.s.choice(3)
    idx: int | None = None if mode == 0 else g.s.pos_choice(n + 1)
    vm, bm, md = _mappers(g, r)
    kw, kd = _clone_opts(g)
    spec = CloneSpec("region.clone_into", r, dest=d, index=idx, value_mapper=vm, block_mapper=bm, clone_operands=kw.get("clone_operands", True))
    if vm is None:
        return Act("Region.clone_into", lambda: r.clone_into(d, idx, **kw), [r, d], f"{g.n(r)}.clone_into({g.n(d)}, {idx}{kd})", clone=spec, group="clone")
    return Act("Region.clone_into", lambda: r.clone_into(d, idx, vm, bm, **kw), [r, d, *vm.values(), *bm.values()], f"{g.n(r)}.clone_into({g.n(d)}, {idx}, {md}{kd})", clone=spec, group="clone")


class HarnessPass:
    """Built lazily (needs xdsl.passes); a ModulePass that applies seeded edits to the
    module it is handed and remembers which module that was."""


def _mk_harness_pass(u: Universe, edits: list[int]):
    from xdsl.passes import ModulePass

    from simverif.irsim.universe import canon

    class SimverifHarnessPass(ModulePass):
        name = "simverif-harness"

        def apply(self, ctx, op):  # type: ignore[override]
            self.received = op
            self.canon_at_entry = canon(u, op)
            ops = [o for o in op.walk() if o is not op]
            for i, e in enumerate(edits):
                if not ops:
                    break
                o = ops[e % len(ops)]
                k = (e // 7) % 4
                if o.parent is None:
                    continue
                if k == 0:
                    o.attributes["edited"] = ATTRS[e % len(ATTRS)]
                elif k == 1:
                    Rewriter.erase_op(o, safe_erase=False)
                    ops = [x for x in op.walk() if x is not op]
                elif k == 2:
                    Rewriter.insert_op(TestOp.create(result_types=[i32]), InsertPoint.before(o))
                else:
                    for r in o.results[:1]:
                        Rewriter.replace_value_with_new_type(r, i64)

    p = SimverifHarnessPass()
    p.received = None
    p.canon_at_entry = None
    return p


_REAL_PASSES = ("dce", "cse", "canonicalize")


@gen("ModuleOp.__init__", "create", 2)
def _create_module(g: G) -> Act | None:
    from xdsl.dialects.builtin import ModuleOp

    if len(g.u.ops) >= g.max_ops:
        return None
    if g.s.flag(1, 3):
        r = g.region(lambda r: r.parent is None and r._first_block is not None and r._first_block is r._last_block)
        if r is not None:
            return Act("ModuleOp.__init__", lambda: ModuleOp(r), [r], f"ModuleOp({g.n(r)})")
    ops = g.some(lambda: g.op(detached_op), 4)
    return Act("ModuleOp.__init__", lambda: ModuleOp(ops), list(ops), f"ModuleOp({g.ns(ops)})")


@gen("ModulePass.apply_to_clone", "clone", 4)
def _apply_to_clone(g: G) -> Act | None:
    from xdsl.context import Context
    from xdsl.dialects.builtin import Builtin, ModuleOp

    if len(g.u.ops) >= 2 * g.max_ops:
        return None
    m = g.op(lambda o: isinstance(o, ModuleOp))
    if m is None or not _clonable(g, m):
        return None
    which = g.s.weighted((3, 1, 1, 1))
    ctx = Context(allow_unregistered=True)
    ctx.load_dialect(Builtin)
    if which == 0:
        edits = [g.s.choice(1000) for _ in range(g.s.choice(5))]
        ps = _mk_harness_pass(g.u, edits)
        desc = f"SimverifHarnessPass(edits={edits}).apply_to_clone(ctx, {g.n(m)})"
    else:
        name = _REAL_PASSES[which - 1]
        if name == "dce":
            from xdsl.transforms.dead_code_elimination import DeadCodeElimination as P
        elif name == "cse":
            from xdsl.transforms.common_subexpression_elimination import CommonSubexpressionElimination as P
        else:
            from xdsl.transforms.canonicalize import CanonicalizePass as P
        ps = P()
        desc = f"{name}.apply_to_clone(ctx, {g.n(m)})"
    spec = CloneSpec("apply_to_clone", m)
    spec.value_mapper = {"pass": ps}  # type: ignore[assignment]  # carries the pass object to the oracle
    return Act("ModulePass.apply_to_clone", lambda: ps.apply_to_clone(ctx, m), [m], desc, clone=spec, group="clone")


@gen("attributes[k]=", "dictedit", 3)
def _attr_edit(g: G) -> Act | None:
    o = g.op()
    if o is None:
        return None
    which = g.s.choice(2)
    d = o.attributes if which == 0 else o.properties
    dn = "attributes" if which == 0 else "properties"
    k = KEYS[g.s.choice(len(KEYS))] if which == 0 else ("prop1", "prop2")[g.s.choice(2)]
    if k in d and g.s.flag(1, 3):

        def run() -> None:
            del d[k]

        return Act("attributes[k]=", run, [o], f"del {g.n(o)}.{dn}[{k!r}]")
    a = ATTRS[g.s.choice(len(ATTRS))]

    def run2() -> None:
        d[k] = a

    return Act("attributes[k]=", run2, [o], f"{g.n(o)}.{dn}[{k!r}] = attr")


# ---------------------------------------------------------------------------
# further public entry points: Region.erase, erase_block(index), Builder, ImplicitBuilder,
# deprecated PatternRewriter aliases
# ---------------------------------------------------------------------------


@gen("Region.erase", "erase", 1)
def _region_erase(g: G) -> Act | None:
    r = g.region() if g.faulty else g.region(detached_region)
    if r is None:
        return None
    return Act("Region.erase", lambda: r.erase(), [r], f"{g.n(r)}.erase()", kills=[r])


@gen("Region.erase_block(index)", "erase", 1)
def _erase_block_idx(g: G) -> Act | None:
    safe = not g.s.flag(1, 3)
    r = g.region(lambda r: r._first_block is not None)
    if r is None:
        return None
    n = region_len(r)
    cands = [i for i in range(n) if g.faulty or not safe or _block_safe_erasable(g, r.blocks[i])]
    if not cands:
        return None
    idx = cands[g.s.pos_choice(len(cands))]
    b = r.blocks[idx]
    if g.s.flag(1, 3):
        idx -= n
    return Act("Region.erase_block(index)", lambda: r.erase_block(idx, safe_erase=safe), [r, b], f"{g.n(r)}.erase_block({idx}, safe_erase={safe})", kills=[b])


@gen("Builder.insert", "rewriter", 3)
def _builder_insert(g: G) -> Act | None:
    """The plain Builder (not a PatternRewriter), with a BuilderListener attached; the
    insertion point is the builder's own or an explicit one; also the deprecated alias."""
    from xdsl.builder import BuilderListener

    ipt = _insert_point(g)
    if ipt is None:
        return None
    mk, objs, d = ipt
    ops = _new_ops_for_ip(g, objs, 3)
    explicit = None
    d2 = "None"
    if g.s.flag(1, 3):
        ipt2 = _insert_point(g)
        if ipt2 is not None:
            mk2, objs2, d2 = ipt2
            ops = _new_ops_for_ip(g, objs2, 3)
            explicit = mk2
            objs = objs + objs2
    arg: Any = ops
    od = g.ns(ops)
    if len(ops) == 1 and g.s.flag(1, 2):
        arg, od = ops[0], g.n(ops[0])
    alias = g.s.flag(1, 4)
    g.fault_at = 1 + g.s.choice(3) if g.s.flag(1, 8) else 0

    def run() -> Any:
        import warnings

        g.notifications = 0

        def note(*_: Any) -> None:
            g.notifications += 1
            if g.fault_at and g.notifications == g.fault_at:
                raise ListenerFault()

        b = Builder(mk())
        b.extend_from_listener(BuilderListener(operation_insertion_handler=[note], block_creation_handler=[note]))
        with warnings.catch_warnings():
            warnings.simplefilter("ignore")
            f = b.insert_op if alias else b.insert
            return f(arg, explicit() if explicit is not None else None)

    lf = f" [listener raises at notification {g.fault_at}]" if g.fault_at else ""
    return Act("Builder.insert", run, [*objs, *ops], f"Builder({d}).{'insert_op' if alias else 'insert'}({od}, {d2}){lf}", listener_fault_at=g.fault_at)


def _seg_op_cls():
    """A harness IRDL op with *named* operand / successor segments: a single one before a
    variadic, the variadic, a single one after it (built lazily, once)."""
    global _SEG_OP
    if _SEG_OP is None:
        from xdsl.irdl import (
            IRDLOperation,
            irdl_op_definition,
            operand_def,
            successor_def,
            var_operand_def,
            var_region_def,
            var_result_def,
            var_successor_def,
        )

        @irdl_op_definition
        class SimSegOp(IRDLOperation):
            name = "simverif.seg"
            first = operand_def()
            mid = var_operand_def()
            last = operand_def()
            res = var_result_def()
            s_first = successor_def()
            s_rest = var_successor_def()
            s_last = successor_def()
            regs = var_region_def()

        _SEG_OP = SimSegOp
    return _SEG_OP


_SEG_OP: Any = None


@gen("SimSegOp.create", "create", 2)
def _create_seg_op(g: G) -> Act | None:
    if len(g.u.ops) >= g.max_ops:
        return None
    cls = _seg_op_cls()
    operands = [g.value() for _ in range(2 + g.s.choice(3))]
    succs = [g.block() for _ in range(2 + g.s.choice(2))] if g.s.flag(1, 2) else []
    if any(v is None for v in operands) or any(b is None for b in succs):
        return None
    nres = g.s.weighted((2, 3, 1))
    return Act(
        "SimSegOp.create",
        lambda: cls.create(operands=operands, result_types=[g.typ() for _ in range(nres)], successors=succs),
        [*operands, *succs],
        f"SimSegOp.create(operands={g.ns(operands)}, results={nres}, successors={g.ns(succs)})",
    )


@gen("IRDL named operand / successor =", "operands", 3)
def _named_accessor_set(g: G) -> Act | None:
    """``op.<name> = value`` for a named operand or successor of an IRDL-defined op (the
    harness op with single-variadic-single segments, or any real dialect op of a corpus
    module).  The shipped accessors are read-only and raise; a tree that makes them writable
    must keep operand, successor and use lists consistent."""
    from xdsl.irdl import IRDLOperation

    o = g.op(lambda o: isinstance(o, IRDLOperation) and type(o).__name__ == "SimSegOp") if g.s.flag(2, 3) else None
    if o is None:
        o = g.op(lambda o: isinstance(o, IRDLOperation))
    if o is None:
        return None
    try:
        d = type(o).get_irdl_definition()
        names = [("operand", n) for n, _ in d.operands] + [("successor", n) for n, _ in d.successors]
    except Exception:  # noqa: BLE001
        return None
    if not names:
        return None
    kind, name = names[g.s.choice(len(names))]
    val: Any = g.value() if kind == "operand" else g.block()
    if val is None:
        return None

    def run() -> None:
        setattr(o, name, val)

    return Act("IRDL named operand / successor =", run, [o, val], f"{g.n(o)}.{name} = {g.n(val)}  ({kind} of {o.name})")


@gen("kept Builder / InsertPoint", "rewriter", 3)
def _kept_builder(g: G) -> Act | None:
    """A Builder (or a bare InsertPoint) that the caller created earlier and *kept* while the
    IR was edited by other calls: its insertion point may be stale by now (anchor moved to
    another block, detached, block split).  The shipped code checks the anchor again when
    it inserts, so a stale point makes the call raise; inserting through a point that is
    still valid must work as usual."""
    from xdsl.builder import BuilderListener

    if not g.u.builders or g.s.flag(1, 3):
        if len(g.u.builders) >= 3:
            g.u.builders.pop(0)
        ipt = _insert_point(g)
        if ipt is None:
            return None
        mk, objs, d = ipt
        bare = g.s.flag(1, 3)

        def create() -> Any:
            ip = mk()
            g.u.builders.append(ip if bare else Builder(ip))
            return None

        return Act("kept Builder / InsertPoint", create, list(objs), f"keep {'the insertion point' if bare else 'a Builder at'} {d}")
    i = g.s.choice(len(g.u.builders))
    kept = g.u.builders[i]
    ip = kept if isinstance(kept, InsertPoint) else kept.insertion_point
    anchor = ip.insert_before
    if g.u.is_dead(ip.block) or (anchor is not None and g.u.is_dead(anchor)):
        del g.u.builders[i]  # never use destroyed objects
        return None
    dest = ip.block
    if g.faulty:
        ops = g.some(lambda: g.op(), 3, distinct=False)
    else:
        ops = g.some(lambda: g.op(lambda o: o.parent is None and not is_ancestor_or_self(o, dest)), 3)
    arg: Any = tuple(ops) if g.s.flag(1, 3) else ops
    where = f"before {g.n(anchor)}" if anchor is not None else f"at the end of {g.n(dest)}"
    stale = anchor is not None and anchor.parent is not dest
    if isinstance(kept, InsertPoint):
        return Act("kept Builder / InsertPoint", lambda: Rewriter.insert_op(arg, kept), [dest, *([anchor] if anchor is not None else []), *ops], f"Rewriter.insert_op({g.ns(ops)}, <kept insertion point {where}{', stale' if stale else ''}>)")
    return Act("kept Builder / InsertPoint", lambda: kept.insert(arg), [dest, *([anchor] if anchor is not None else []), *ops], f"<kept Builder {where}{', stale' if stale else ''}>.insert({g.ns(ops)})")


@gen("ImplicitBuilder", "create", 2)
def _implicit_builder(g: G) -> Act | None:
    """Operations created inside ``with ImplicitBuilder(block | single-block region | Builder)``
    are appended at the builder's insertion point (creation and insertion in one step);
    optionally a nested implicit builder on a second block."""
    from xdsl.builder import ImplicitBuilder

    if len(g.u.ops) >= g.max_ops:
        return None
    kind = g.s.choice(3)
    b = g.block()
    if b is None:
        return None
    target: Any = b
    td = g.n(b)
    objs: list[Any] = [b]
    if kind == 1:
        r = g.region(lambda r: r._first_block is not None and r._first_block is r._last_block) if not g.faulty else g.region()
        if r is None:
            return None
        target, td, objs = r, g.n(r), [r]
        b = r._first_block
    elif kind == 2:
        ipt = _insert_point(g)
        if ipt is None:
            return None
        mk, objs, d = ipt
        target, td = None, f"Builder({d})"
    n_new = 1 + g.s.choice(3)
    specs = []
    for _ in range(n_new):
        cls = OPCLS[g.s.weighted((3, 2, 1))]
        operands = g.some(lambda: g.value(), 2, distinct=False)
        nres = g.s.weighted((2, 4, 1))
        specs.append((cls, operands, nres))
    b2 = g.block(lambda x: x is not b) if g.s.flag(1, 3) else None
    vals = [v for _, ops_, _ in specs for v in ops_]

    def run() -> Any:
        made: list[Operation] = []
        tgt = target if target is not None else Builder(mk())
        with ImplicitBuilder(tgt):
            for i, (cls, operands, nres) in enumerate(specs):
                made.append(cls.create(operands=operands, result_types=[i32] * nres))
                if b2 is not None and i == 0:
                    with ImplicitBuilder(b2):
                        made.append(TestOp.create(result_types=[i64]))
        return made

    return Act("ImplicitBuilder", run, [*objs, *vals, *([b2] if b2 is not None else [])], f"with ImplicitBuilder({td}): create {n_new} ops" + (f" (nested: ImplicitBuilder({g.n(b2)}))" if b2 is not None else ""))


@gen("PatternRewriter.erase_op (deprecated alias)", "patternrewriter", 1)
def _pr_erase_alias(g: G) -> Act | None:
    safe = not g.s.flag(1, 3)
    o = g.op() if g.faulty else g.op(lambda o: not safe or _unused(o))
    if o is None:
        return None

    def body(rw: PatternRewriter) -> Any:
        import warnings

        with warnings.catch_warnings():
            warnings.simplefilter("ignore")
            return rw.erase_op(o, safe_erase=safe)

    return _pr(g, "PatternRewriter.erase_op (deprecated alias)", body, [o], f"erase_op({g.n(o)}, safe_erase={safe})", kills=[o])


@gen("PatternRewriter.replace_op / replace_matched_op (deprecated aliases)", "patternrewriter", 2)
def _pr_replace_alias(g: G) -> Act | None:
    o = g.op() if g.faulty else g.op(attached_op)
    if o is None:
        return None
    safe = not g.s.flag(1, 4)
    arg, new_ops, new_results, d = _replace_args(g, o)
    vals = [v for v in (new_results or []) if v is not None]
    matched = g.s.flag(1, 2)
    g.fault_at = 1 + g.s.choice(4) if g.s.flag(1, 6) else 0

    def run() -> Any:
        import warnings

        g.notifications = 0
        with warnings.catch_warnings():
            warnings.simplefilter("ignore")
            if matched:
                rw = _mk_rewriter(g, o)
                return rw.replace_matched_op(arg, new_results, safe_erase=safe)
            cur = o if o.parent is not None else o
            rw = _mk_rewriter(g, cur)
            return rw.replace_op(o, arg, new_results, safe_erase=safe)

    lf = f" [listener raises at notification {g.fault_at}]" if g.fault_at else ""
    nm = "replace_matched_op" if matched else "replace_op"
    return Act(
        "PatternRewriter.replace_op / replace_matched_op (deprecated aliases)",
        run,
        [o, *new_ops, *vals],
        f"PatternRewriter({g.n(o)}).{nm}({d}, safe_erase={safe}){lf}",
        kills=[o],
        group="patternrewriter",
        listener_fault_at=g.fault_at,
    )


# ---------------------------------------------------------------------------
# starting IR ("any starting IR"): built with the public constructors only
# ---------------------------------------------------------------------------


def build_initial(u: Universe, s: Stream) -> None:
    """1-3 root trees (op / block / region roots), nesting depth <= 3, multi-block
    regions with forward and backward successors, then a rewiring pass that makes
    ops use values from enclosing regions, sibling trees and later definitions."""
    pool: list[SSAValue] = []
    budget = [(4, 10, 20, 40)[s.choice(4)]]

    def mk_op(depth: int) -> Operation:
        budget[0] -= 1
        nreg = s.weighted((5, 3, 1)) if depth > 0 and budget[0] > 0 else 0
        regions = [mk_region(depth - 1) for _ in range(nreg)]
        k = min(len(pool), s.choice(4))
        operands = [pool[s.choice(len(pool))] for _ in range(k)]
        rtypes = [TYPES[s.choice(len(TYPES))] for _ in range(s.weighted((2, 4, 2)))]
        attrs = {KEYS[s.choice(len(KEYS))]: ATTRS[s.choice(len(ATTRS))]} if s.flag(1, 3) else {}
        op = OPCLS[s.weighted((3, 2, 1))].create(
            operands=operands, result_types=rtypes, regions=regions, attributes=attrs, location=LOCS[s.weighted((2, 1, 1))]
        )
        pool.extend(op.results)
        return op

    def mk_block(depth: int) -> Block:
        n = s.weighted((1, 3, 3, 2, 1)) if budget[0] > 0 else 0
        b = Block()
        for i in range(s.weighted((3, 2, 1))):
            b.insert_arg(TYPES[s.choice(len(TYPES))], i, LOCS[s.weighted((2, 1, 1))])
        pool.extend(b.args)
        for _ in range(n):
            b.add_op(mk_op(depth))
        return b

    def mk_region(depth: int) -> Region:
        nb = s.weighted((1, 4, 2, 1))
        blocks = [mk_block(depth) for _ in range(nb)]
        r = Region(blocks)
        if nb > 1:
            for b in blocks:
                last = b.last_op
                if last is not None and s.flag(1, 2):
                    last.successors = [blocks[s.choice(nb)] for _ in range(1 + s.choice(2))]
        return r

    nroots = 1 + s.choice(3)
    roots: list[Any] = []
    for _ in range(nroots):
        kind = s.weighted((3, 1, 1))
        depth = s.choice(4)
        if kind == 0:
            roots.append(mk_op(max(depth, 1)))
        elif kind == 1:
            roots.append(mk_block(depth))
        else:
            roots.append(mk_region(depth))
    for r in roots:
        u.register(r)
    # rewiring pass: uses of outer / later / foreign values
    if pool:
        for op in list(u.ops):
            if s.flag(1, 3):
                op.operands = [pool[s.choice(len(pool))] for _ in range(s.choice(4))]
