"""
The IR universe of one simulated run, the C01 invariant walker ``INV``, the identity
level snapshot ``SNAP`` and the isomorphism level canonical form ``CANON``
(DESIGN.md section 3.0).  None of this shares code with xDSL's
``is_structurally_equivalent``, ``clone`` or the printer: everything is read through
the raw fields of the IR objects.
"""

from __future__ import annotations

from typing import Any

from xdsl.ir import Block, ErasedSSAValue, Operation, Region, SSAValue

from simverif.kernel import HarnessError


class InvFail(Exception):
    """INV does not hold; ``code`` is a stable short identifier of the broken clause."""

    def __init__(self, code: str, detail: str):
        super().__init__(f"{code}: {detail}")
        self.code = code
        self.detail = detail


class Universe:
    """Registry of every IR object a run has created (or discovered) and not destroyed."""

    def __init__(self) -> None:
        self.keep: list[Any] = []  # strong refs: ids are never reused within a run
        self.names: dict[int, str] = {}
        self.ops: list[Operation] = []
        self.blocks: list[Block] = []
        self.regions: list[Region] = []
        self.dead: set[int] = set()
        self.counter = {"o": 0, "b": 0, "r": 0, "v": 0, "e": 0}
        self.mappers: list[tuple[dict[Any, Any], dict[Any, Any]]] = []  # (value_mapper, block_mapper) pairs kept by the caller
        self.builders: list[Any] = []  # Builder objects / insertion points kept by the caller across edits

    # -- naming ---------------------------------------------------------------
    def _name(self, obj: Any, kind: str) -> str:
        n = self.names.get(id(obj))
        if n is None:
            n = f"{kind}{self.counter[kind]}"
            self.counter[kind] += 1
            self.names[id(obj)] = n
            self.keep.append(obj)
        return n

    def nm(self, obj: Any) -> str:
        """Stable name of any IR object (never an id())."""
        if obj is None:
            return "None"
        n = self.names.get(id(obj))
        if n is not None:
            return n
        if isinstance(obj, Operation):
            return self._name(obj, "o")
        if isinstance(obj, Block):
            return self._name(obj, "b")
        if isinstance(obj, Region):
            return self._name(obj, "r")
        if isinstance(obj, ErasedSSAValue):
            return self._name(obj, "e")
        if isinstance(obj, SSAValue):
            return self._name(obj, "v")
        return type(obj).__name__

    def is_known(self, obj: Any) -> bool:
        return id(obj) in self.names

    def is_dead(self, obj: Any) -> bool:
        return id(obj) in self.dead

    def is_live(self, obj: Any) -> bool:
        return id(obj) in self.names and id(obj) not in self.dead

    # -- registration ---------------------------------------------------------
    def register(self, obj: Any) -> None:
        """Register ``obj`` and everything nested in it (deterministic preorder)."""
        stack = [obj]
        guard = 0
        while stack:
            guard += 1
            if guard > 100000:
                raise HarnessError("register: runaway walk")
            x = stack.pop()
            if x is None or id(x) in self.dead:
                continue
            if isinstance(x, Operation):
                if id(x) not in self.names:
                    self._name(x, "o")
                    self.ops.append(x)
                for r in x.results:
                    self._name(r, "v")
                for reg in reversed(x.regions):
                    stack.append(reg)
            elif isinstance(x, Block):
                if id(x) not in self.names:
                    self._name(x, "b")
                    self.blocks.append(x)
                for a in x._args:
                    self._name(a, "v")
                ops = _safe_list(x._first_op, "_next_op")
                for o in reversed(ops):
                    stack.append(o)
            elif isinstance(x, Region):
                if id(x) not in self.names:
                    self._name(x, "r")
                    self.regions.append(x)
                blocks = _safe_list(x._first_block, "_next_block")
                for b in reversed(blocks):
                    stack.append(b)

    def closure(self, obj: Any) -> list[Any]:
        """obj and everything nested in it (ops, blocks, regions, results, args)."""
        out: list[Any] = []
        stack = [obj]
        guard = 0
        while stack:
            guard += 1
            if guard > 100000:
                raise HarnessError("closure: runaway walk")
            x = stack.pop()
            out.append(x)
            if isinstance(x, Operation):
                out.extend(x.results)
                stack.extend(reversed(x.regions))
            elif isinstance(x, Block):
                out.extend(x._args)
                stack.extend(reversed(_safe_list(x._first_op, "_next_op")))
            elif isinstance(x, Region):
                stack.extend(reversed(_safe_list(x._first_block, "_next_block")))
        return out

    def kill(self, objs: list[Any]) -> None:
        for x in objs:
            self.names.setdefault(id(x), "dead?")
            self.keep.append(x)
            self.dead.add(id(x))
        self.ops = [o for o in self.ops if id(o) not in self.dead]
        self.blocks = [b for b in self.blocks if id(b) not in self.dead]
        self.regions = [r for r in self.regions if id(r) not in self.dead]

    # -- queries --------------------------------------------------------------
    def roots(self) -> list[Any]:
        """Live objects without parent, in registration order (ops, blocks, regions)."""
        return (
            [o for o in self.ops if o.parent is None]
            + [b for b in self.blocks if b.parent is None]
            + [r for r in self.regions if r.parent is None]
        )

    def root_of(self, obj: Any) -> Any:
        """Top-level ancestor (bounded walk).  For a value: of its owner."""
        if isinstance(obj, SSAValue):
            obj = obj.owner
        cur = obj
        for _ in range(10000):
            p = cur.parent
            if p is None:
                return cur
            cur = p
        raise InvFail("cyclic-containment", f"parent chain of {self.nm(obj)} does not end")

    def has_cycle(self) -> bool:
        for coll in (self.ops, self.blocks, self.regions):
            for x in coll:
                cur = x
                n = 0
                while cur is not None:
                    cur = cur.parent
                    n += 1
                    if n > 5000:
                        return True
        return False

    def values(self) -> list[SSAValue]:
        """Values defined by live ops / blocks, deterministic order."""
        out: list[SSAValue] = []
        for o in self.ops:
            out.extend(o.results)
        for b in self.blocks:
            out.extend(b._args)
        return out


def _safe_list(first: Any, nxt: str) -> list[Any]:
    """Follow an intrusive list, stopping at a repeat (corrupt lists must not hang us)."""
    out: list[Any] = []
    seen: set[int] = set()
    cur = first
    while cur is not None and id(cur) not in seen and len(out) < 100000:
        seen.add(id(cur))
        out.append(cur)
        cur = getattr(cur, nxt)
    return out


def is_ancestor_or_self(anc: Any, node: Any) -> bool:
    cur = node
    n = 0
    while cur is not None and n < 10000:
        if cur is anc:
            return True
        cur = cur.parent
        n += 1
    return False


# ---------------------------------------------------------------------------
# INV: exactly the C01 sentence
# ---------------------------------------------------------------------------


def _walk_both(u: Universe, owner: Any, first: Any, last: Any, nxt: str, prv: str, what: str) -> list[Any]:
    fwd: list[Any] = []
    seen: set[int] = set()
    cur = first
    while cur is not None:
        if id(cur) in seen:
            raise InvFail(f"{what}-list-cycle", f"forward list of {u.nm(owner)} revisits {u.nm(cur)}")
        seen.add(id(cur))
        fwd.append(cur)
        cur = getattr(cur, nxt)
        if len(fwd) > 100000:
            raise InvFail(f"{what}-list-cycle", f"forward list of {u.nm(owner)} does not end")
    bwd: list[Any] = []
    seen = set()
    cur = last
    while cur is not None:
        if id(cur) in seen:
            raise InvFail(f"{what}-list-cycle", f"backward list of {u.nm(owner)} revisits {u.nm(cur)}")
        seen.add(id(cur))
        bwd.append(cur)
        cur = getattr(cur, prv)
        if len(bwd) > 100000:
            raise InvFail(f"{what}-list-cycle", f"backward list of {u.nm(owner)} does not end")
    bwd.reverse()
    if len(fwd) != len(bwd) or any(a is not b for a, b in zip(fwd, bwd)):
        raise InvFail(
            f"{what}-fwd-bwd-mismatch",
            f"{u.nm(owner)}: forward {[u.nm(x) for x in fwd]} vs backward {[u.nm(x) for x in bwd]}",
        )
    return fwd


def check_inv(u: Universe) -> None:
    """Raise InvFail unless the whole universe satisfies the C01 statement.
    Registers objects it discovers inside live containers (new blocks/ops made by a call)."""
    seen_ops: dict[int, Any] = {}
    seen_blocks: dict[int, Any] = {}
    seen_regions: dict[int, Any] = {}

    # objects may be discovered while we iterate: iterate by index
    bi = ri = oi = 0
    progressed = True
    while progressed:
        progressed = False
        while oi < len(u.ops):
            op = u.ops[oi]
            oi += 1
            progressed = True
            for reg in op.regions:
                if not isinstance(reg, Region):
                    raise InvFail("region-type", f"{u.nm(op)}.regions holds a non-region")
                if u.is_dead(reg):
                    raise InvFail("dead-in-container", f"erased region {u.nm(reg)} still in {u.nm(op)}.regions")
                if not u.is_known(reg):
                    u.register(reg)
                if reg.parent is not op:
                    raise InvFail("region-parent", f"{u.nm(reg)} in {u.nm(op)}.regions has parent {u.nm(reg.parent)}")
                if id(reg) in seen_regions:
                    raise InvFail("region-twice", f"{u.nm(reg)} found in {u.nm(seen_regions[id(reg)])} and {u.nm(op)}")
                seen_regions[id(reg)] = op
        while ri < len(u.regions):
            reg = u.regions[ri]
            ri += 1
            progressed = True
            blocks = _walk_both(u, reg, reg._first_block, reg._last_block, "_next_block", "_prev_block", "block")
            for b in blocks:
                if u.is_dead(b):
                    raise InvFail("dead-in-container", f"erased block {u.nm(b)} still in list of {u.nm(reg)}")
                if not u.is_known(b):
                    u.register(b)
                if b.parent is not reg:
                    raise InvFail("block-parent", f"{u.nm(b)} in list of {u.nm(reg)} has parent {u.nm(b.parent)}")
                if id(b) in seen_blocks:
                    raise InvFail("block-twice", f"{u.nm(b)} found in {u.nm(seen_blocks[id(b)])} and {u.nm(reg)}")
                seen_blocks[id(b)] = reg
        while bi < len(u.blocks):
            b = u.blocks[bi]
            bi += 1
            progressed = True
            ops = _walk_both(u, b, b._first_op, b._last_op, "_next_op", "_prev_op", "op")
            for op in ops:
                if u.is_dead(op):
                    raise InvFail("dead-in-container", f"erased op {u.nm(op)} still in list of {u.nm(b)}")
                if not u.is_known(op):
                    u.register(op)
                if op.parent is not b:
                    raise InvFail("op-parent", f"{u.nm(op)} in list of {u.nm(b)} has parent {u.nm(op.parent)}")
                if id(op) in seen_ops:
                    raise InvFail("op-twice", f"{u.nm(op)} found in {u.nm(seen_ops[id(op)])} and {u.nm(b)}")
                seen_ops[id(op)] = b
            for i, a in enumerate(b._args):
                if a.index != i or a.block is not b:
                    raise InvFail("arg-index", f"argument {i} of {u.nm(b)} has index {a.index}, block {u.nm(a.block)}")

    # converse: everything with a parent is found in that parent's list
    for op in u.ops:
        p = op.parent
        if p is not None:
            if not u.is_live(p):
                raise InvFail("op-parent", f"{u.nm(op)} has parent {u.nm(p)} which is not a live block")
            if seen_ops.get(id(op)) is not p:
                raise InvFail("op-not-in-parent", f"{u.nm(op)} has parent {u.nm(p)} but is not in its list")
        elif id(op) in seen_ops:
            raise InvFail("op-parent", f"{u.nm(op)} is in the list of {u.nm(seen_ops[id(op)])} but has no parent")
    for b in u.blocks:
        p = b.parent
        if p is not None:
            if not u.is_live(p):
                raise InvFail("block-parent", f"{u.nm(b)} has parent {u.nm(p)} which is not a live region")
            if seen_blocks.get(id(b)) is not p:
                raise InvFail("block-not-in-parent", f"{u.nm(b)} has parent {u.nm(p)} but is not in its list")
    for reg in u.regions:
        p = reg.parent
        if p is not None:
            if not u.is_live(p):
                raise InvFail("region-parent", f"{u.nm(reg)} has parent {u.nm(p)} which is not a live op")
            if seen_regions.get(id(reg)) is not p:
                raise InvFail("region-not-in-parent", f"{u.nm(reg)} has parent {u.nm(p)} but is not in its regions")

    # operand / successor positions and the use lists
    expected: dict[int, list[Any]] = {}  # id(value or block) -> [use objects]
    holders: dict[int, Any] = {}
    for op in u.ops:
        opnds, uses = op._operands, op._operand_uses
        if len(opnds) != len(uses):
            raise InvFail("operand-uses-len", f"{u.nm(op)} has {len(opnds)} operands and {len(uses)} operand uses")
        for i, (v, use) in enumerate(zip(opnds, uses)):
            if use._operation is not op or use._index != i:
                raise InvFail("operand-use-position", f"operand use {i} of {u.nm(op)} says ({u.nm(use._operation)}, {use._index})")
            expected.setdefault(id(v), []).append(use)
            holders[id(v)] = v
        succs, suses = op._successors, op._successor_uses
        if len(succs) != len(suses):
            raise InvFail("successor-uses-len", f"{u.nm(op)} has {len(succs)} successors and {len(suses)} successor uses")
        for i, (sb, use) in enumerate(zip(succs, suses)):
            if use._operation is not op or use._index != i:
                raise InvFail("successor-use-position", f"successor use {i} of {u.nm(op)} says ({u.nm(use._operation)}, {use._index})")
            expected.setdefault(id(sb), []).append(use)
            holders[id(sb)] = sb
        for i, r in enumerate(op.results):
            if r.index != i or r.op is not op:
                raise InvFail("result-index", f"result {i} of {u.nm(op)} has index {r.index}, op {u.nm(r.op)}")
            holders.setdefault(id(r), r)
    for b in u.blocks:
        holders.setdefault(id(b), b)
        for a in b._args:
            holders.setdefault(id(a), a)
    for hid, h in holders.items():
        exp = expected.get(hid, [])
        got: list[Any] = []
        seen: set[int] = set()
        cur = h.first_use
        prev = None
        while cur is not None:
            if id(cur) in seen:
                raise InvFail("use-list-cycle", f"use list of {u.nm(h)} revisits a use")
            seen.add(id(cur))
            if cur._prev_use is not prev:
                raise InvFail("use-prev-link", f"use list of {u.nm(h)}: back link of ({u.nm(cur._operation)}, {cur._index}) is wrong")
            got.append(cur)
            prev = cur
            cur = cur._next_use
            if len(got) > 100000:
                raise InvFail("use-list-cycle", f"use list of {u.nm(h)} does not end")
        if len(got) != len(exp) or {id(x) for x in got} != {id(x) for x in exp}:
            raise InvFail(
                "use-list-mismatch",
                f"{u.nm(h)}: use list {sorted((u.nm(x._operation), x._index) for x in got)} vs "
                f"operand/successor lists {sorted((u.nm(x._operation), x._index) for x in exp)}",
            )


# ---------------------------------------------------------------------------
# SNAP and CANON
# ---------------------------------------------------------------------------


def _attr_key(d: dict[str, Any]) -> tuple[Any, ...]:
    return tuple((k, d[k]) for k in sorted(d))


def snap_tree(u: Universe, root: Any) -> tuple[Any, ...]:
    """Identity-level snapshot of one tree (no use lists; name hints included: they are
    not part of *equivalence* (CANON) but "modifies neither the source nor the destination" covers them)."""
    out: list[Any] = []
    stack = [root]
    n = 0
    while stack:
        n += 1
        if n > 100000:
            raise HarnessError("snap: runaway walk")
        x = stack.pop()
        if isinstance(x, Operation):
            out.append(
                (
                    "op",
                    u.nm(x),
                    x.name,
                    tuple(u.nm(v) for v in x._operands),
                    tuple((u.nm(r), r.type, getattr(r, "_name", None)) for r in x.results),
                    _attr_key(x.attributes),
                    _attr_key(x.properties),
                    getattr(x, "location", None),
                    tuple(u.nm(b) for b in x._successors),
                    tuple(u.nm(r) for r in x.regions),
                )
            )
            stack.extend(reversed(x.regions))
        elif isinstance(x, Block):
            ops = _safe_list(x._first_op, "_next_op")
            out.append(
                (
                    "block",
                    u.nm(x),
                    tuple((u.nm(a), a.type, getattr(a, "location", None), getattr(a, "_name", None)) for a in x._args),
                    getattr(x, "_name", None),
                    tuple(u.nm(o) for o in ops),
                )
            )
            stack.extend(reversed(ops))
        elif isinstance(x, Region):
            blocks = _safe_list(x._first_block, "_next_block")
            out.append(("region", u.nm(x), tuple(u.nm(b) for b in blocks)))
            stack.extend(reversed(blocks))
    return tuple(out)


def snap_all(u: Universe) -> dict[int, tuple[Any, ...]]:
    """id(root) -> snapshot, for every live root."""
    return {id(r): snap_tree(u, r) for r in u.roots()}


def canon(
    u: Universe,
    node: Any,
    ext_values: dict[int, Any] | None = None,
    ext_blocks: dict[int, Any] | None = None,
    drop_operands: bool = False,
) -> tuple[Any, ...]:
    """Isomorphism-level canonical form of the IR nested in ``node`` (an Operation or
    a Region, or a list of blocks).  References to things defined inside are by
    preorder position, to things outside by universe name.  ``ext_values`` /
    ``ext_blocks`` (id(old) -> new object) rename *outside* references first (what a
    caller-supplied mapper asks clone to do); ``drop_operands`` emits empty operand lists
    (the documented effect of ``clone_operands=False``)."""
    ext_values = ext_values or {}
    ext_blocks = ext_blocks or {}
    ops: list[Operation] = []
    blocks: list[Block] = []

    def number(x: Any) -> None:
        stack = [x]
        while stack:
            y = stack.pop()
            if isinstance(y, Operation):
                ops.append(y)
                stack.extend(reversed(y.regions))
            elif isinstance(y, Block):
                blocks.append(y)
                stack.extend(reversed(_safe_list(y._first_op, "_next_op")))
            elif isinstance(y, Region):
                stack.extend(reversed(_safe_list(y._first_block, "_next_block")))
            elif isinstance(y, list):
                stack.extend(reversed(y))

    number(node)
    vref: dict[int, tuple[Any, ...]] = {}
    bref: dict[int, tuple[Any, ...]] = {}
    for i, o in enumerate(ops):
        for j, r in enumerate(o.results):
            vref[id(r)] = ("in-res", i, j)
    for i, b in enumerate(blocks):
        bref[id(b)] = ("in-block", i)
        for j, a in enumerate(b._args):
            vref[id(a)] = ("in-arg", i, j)

    def emit(x: Any) -> Any:
        if isinstance(x, Operation):
            return (
                "op",
                x.name,
                type(x).__name__,
                () if drop_operands else tuple(vref.get(id(v)) or ("ext", u.nm(ext_values.get(id(v), v))) for v in x._operands),
                tuple(r.type for r in x.results),
                _attr_key(x.attributes),
                _attr_key(x.properties),
                getattr(x, "location", None),
                tuple(bref.get(id(b)) or ("ext", u.nm(ext_blocks.get(id(b), b))) for b in x._successors),
                tuple(emit(r) for r in x.regions),
            )
        if isinstance(x, Block):
            return (
                "block",
                tuple((a.type, getattr(a, "location", None)) for a in x._args),
                tuple(emit(o) for o in _safe_list(x._first_op, "_next_op")),
            )
        if isinstance(x, Region):
            return ("region", tuple(emit(b) for b in _safe_list(x._first_block, "_next_block")))
        if isinstance(x, list):
            return ("blocks", tuple(emit(b) for b in x))
        raise HarnessError("canon: unexpected node")

    return emit(node)


def struct_hash(u: Universe) -> int:
    """Cheap structural fingerprint of the whole universe (for distinct-state counting)."""
    h = 0
    for r in u.roots():
        stack = [r]
        n = 0
        while stack and n < 5000:
            n += 1
            x = stack.pop()
            if isinstance(x, Operation):
                h = (h * 1000003 + len(x._operands) * 7 + len(x.results) * 13 + len(x.regions) * 31 + len(x._successors) * 3 + 1) & 0xFFFFFFFFFFFF
                stack.extend(x.regions)
            elif isinstance(x, Block):
                h = (h * 1000003 + len(x._args) * 5 + 2) & 0xFFFFFFFFFFFF
                stack.extend(_safe_list(x._first_op, "_next_op"))
            elif isinstance(x, Region):
                h = (h * 1000003 + 3) & 0xFFFFFFFFFFFF
                stack.extend(_safe_list(x._first_block, "_next_block"))
        h = (h * 1000003 + 17) & 0xFFFFFFFFFFFF
    return h


# ---------------------------------------------------------------------------
# QUERIES: the public read API must show exactly what the raw fields hold
# ---------------------------------------------------------------------------


def check_queries(u: Universe, pick: int = 0) -> int:
    """See ``_check_queries``; a read-only query that raises on IR whose raw fields are
    consistent is itself a failure to find the element in its container."""
    try:
        return _check_queries(u, pick)
    except (InvFail, HarnessError, RecursionError, MemoryError):
        raise
    except Exception as e:  # noqa: BLE001
        import traceback as _tb

        fr = _tb.extract_tb(e.__traceback__)
        where = next((f.name for f in reversed(fr) if "/xdsl/" in f.filename), "?")
        raise InvFail("query-raised", f"read-only query raised {type(e).__name__} in {where} on IR whose lists, parents and use lists are consistent")


def _check_queries(u: Universe, pick: int = 0) -> int:
    """The user-visible form of the C01 sentence: every op/block is *found* (by the
    public iteration, indexing and navigation API) exactly once in its container in
    forward and backward order and points back to it; ``uses`` / ``predecessors`` show
    exactly the referencing positions.  Compared with the raw-field walk that ``check_inv``
    has just validated (so this must only be called when ``check_inv`` passed).
    ``pick`` rotates which element of a container gets the O(n) index queries.
    Returns the number of comparisons made."""
    n_cmp = 0

    def bad(code: str, detail: str) -> InvFail:
        return InvFail("query-" + code, detail)

    for b in u.blocks:
        raw = _safe_list(b._first_op, "_next_op")
        ops = b.ops
        fwd = list(ops)
        if len(fwd) != len(raw) or any(x is not y for x, y in zip(fwd, raw)):
            raise bad("block-ops-iter", f"list({u.nm(b)}.ops) = {[u.nm(x) for x in fwd]} but the block holds {[u.nm(x) for x in raw]}")
        bwd = list(reversed(ops))
        if len(bwd) != len(raw) or any(x is not y for x, y in zip(bwd, reversed(raw))):
            raise bad("block-ops-reversed", f"reversed({u.nm(b)}.ops) = {[u.nm(x) for x in bwd]} but the block holds {[u.nm(x) for x in raw]}")
        if len(ops) != len(raw) or bool(ops) != bool(raw) or b.is_empty != (not raw):
            raise bad("block-ops-len", f"len/bool/is_empty of {u.nm(b)}.ops disagree with its {len(raw)} ops")
        first, last = (raw[0], raw[-1]) if raw else (None, None)
        if b.first_op is not first or b.last_op is not last or ops.first is not first or ops.last is not last:
            raise bad("block-first-last", f"first_op/last_op of {u.nm(b)} are {u.nm(b.first_op)}/{u.nm(b.last_op)}, the block holds {[u.nm(x) for x in raw]}")
        for i, o in enumerate(raw):
            if o.next_op is not (raw[i + 1] if i + 1 < len(raw) else None) or o.prev_op is not (raw[i - 1] if i else None):
                raise bad("op-next-prev", f"{u.nm(o)}.next_op/prev_op = {u.nm(o.next_op)}/{u.nm(o.prev_op)} in {u.nm(b)} = {[u.nm(x) for x in raw]}")
            if o.parent_block() is not b or o.parent_region() is not b.parent or o.parent_op() is not (b.parent.parent if b.parent is not None else None):
                raise bad("op-parent-accessors", f"parent_block/parent_region/parent_op of {u.nm(o)} do not lead to {u.nm(b)} and its owners")
        if raw:
            for i in {0, len(raw) - 1, pick % len(raw)}:
                if b.get_operation_index(raw[i]) != i:
                    raise bad("operation-index", f"{u.nm(b)}.get_operation_index({u.nm(raw[i])}) = {b.get_operation_index(raw[i])}, position is {i}")
        reg = b.parent
        if b.parent_region() is not reg or b.parent_op() is not (reg.parent if reg is not None else None):
            raise bad("block-parent-accessors", f"parent_region/parent_op of {u.nm(b)} disagree with its parent chain")
        pb = reg.parent.parent if reg is not None and reg.parent is not None else None
        if b.parent_block() is not pb:
            raise bad("block-parent-accessors", f"{u.nm(b)}.parent_block() is {u.nm(b.parent_block())}, expected {u.nm(pb)}")
        n_cmp += 6 + 2 * len(raw)
    for r in u.regions:
        raw = _safe_list(r._first_block, "_next_block")
        blocks = r.blocks
        fwd = list(blocks)
        if len(fwd) != len(raw) or any(x is not y for x, y in zip(fwd, raw)):
            raise bad("region-blocks-iter", f"list({u.nm(r)}.blocks) = {[u.nm(x) for x in fwd]} but the region holds {[u.nm(x) for x in raw]}")
        bwd = list(reversed(blocks))
        if len(bwd) != len(raw) or any(x is not y for x, y in zip(bwd, reversed(raw))):
            raise bad("region-blocks-reversed", f"reversed({u.nm(r)}.blocks) = {[u.nm(x) for x in bwd]} but the region holds {[u.nm(x) for x in raw]}")
        if len(blocks) != len(raw) or bool(blocks) != bool(raw):
            raise bad("region-blocks-len", f"len/bool of {u.nm(r)}.blocks disagree with its {len(raw)} blocks")
        first, last = (raw[0], raw[-1]) if raw else (None, None)
        if r.first_block is not first or r.last_block is not last or blocks.first is not first or blocks.last is not last:
            raise bad("region-first-last", f"first_block/last_block of {u.nm(r)} are {u.nm(r.first_block)}/{u.nm(r.last_block)}, the region holds {[u.nm(x) for x in raw]}")
        for i, blk in enumerate(raw):
            if blk.next_block is not (raw[i + 1] if i + 1 < len(raw) else None) or blk.prev_block is not (raw[i - 1] if i else None):
                raise bad("block-next-prev", f"{u.nm(blk)}.next_block/prev_block wrong in {u.nm(r)} = {[u.nm(x) for x in raw]}")
        if raw:
            for i in {0, len(raw) - 1, pick % len(raw)}:
                if blocks[i] is not raw[i] or blocks[i - len(raw)] is not raw[i]:
                    raise bad("region-blocks-getitem", f"{u.nm(r)}.blocks[{i}] / [{i - len(raw)}] is not {u.nm(raw[i])}")
                if r.get_block_index(raw[i]) != i:
                    raise bad("block-index", f"{u.nm(r)}.get_block_index({u.nm(raw[i])}) = {r.get_block_index(raw[i])}, position is {i}")
        if r.parent_op() is not r.parent:
            raise bad("region-parent-accessors", f"{u.nm(r)}.parent_op() is not its parent")
        n_cmp += 6 + len(raw)
    # uses and predecessors (raw use lists were validated against operand lists by INV)
    holders: list[Any] = list(u.values()) + list(u.blocks)
    for h in holders:
        raw_uses = []
        cur = h.first_use
        while cur is not None and len(raw_uses) < 100000:
            raw_uses.append(cur)
            cur = cur._next_use
        got = list(h.uses)
        if len(got) != len(raw_uses) or any(x is not y for x, y in zip(got, raw_uses)):
            raise bad("uses-iter", f"list({u.nm(h)}.uses) has {len(got)} entries, the use list has {len(raw_uses)}")
        for use in got:
            if use.operation is not use._operation or use.index != use._index:
                raise bad("use-accessors", f"a use of {u.nm(h)} reports ({u.nm(use.operation)}, {use.index})")
        n = len(raw_uses)
        if h.uses.get_length() != n or bool(h.uses) != (n > 0) or h.has_one_use() != (n == 1) or h.has_more_than_one_use() != (n > 1):
            raise bad("uses-count", f"get_length/bool/has_one_use/has_more_than_one_use of {u.nm(h)} disagree with its {n} uses")
        uu = h.get_unique_use()
        if uu is not (raw_uses[0] if n == 1 else None) or h.get_user_of_unique_use() is not (raw_uses[0]._operation if n == 1 else None):
            raise bad("unique-use", f"get_unique_use/get_user_of_unique_use of {u.nm(h)} disagree with its {n} uses")
        if isinstance(h, Block):
            exp = tuple(x._operation.parent for x in raw_uses if x._operation.parent is not None)
            gotp = h.predecessors()
            if len(gotp) != len(exp) or any(x is not y for x, y in zip(gotp, exp)):
                raise bad("predecessors", f"{u.nm(h)}.predecessors() = {[u.nm(x) for x in gotp]}, branching ops live in {[u.nm(x) for x in exp]}")
        n_cmp += 4
    # walks: preorder / reverse / region-first orders of Operation.walk, walk_blocks
    for root in u.roots():
        if not isinstance(root, Operation):
            continue
        pre: list[Operation] = []
        post_rev: list[Operation] = []
        rf: list[Operation] = []
        blks: list[Block] = []

        def rec(o: Operation, depth: int = 0) -> None:
            if depth > 200:
                raise HarnessError("query walk: too deep")
            pre.append(o)
            for reg in o.regions:
                for blk in _safe_list(reg._first_block, "_next_block"):
                    blks.append(blk)
                    for c in _safe_list(blk._first_op, "_next_op"):
                        rec(c, depth + 1)
            rf.append(o)

        def rec_rev(o: Operation, depth: int = 0) -> None:
            post_rev.append(o)
            for reg in reversed(o.regions):
                for blk in reversed(_safe_list(reg._first_block, "_next_block")):
                    for c in reversed(_safe_list(blk._first_op, "_next_op")):
                        rec_rev(c, depth + 1)

        rec(root)
        got1 = list(root.walk())
        if len(got1) != len(pre) or any(x is not y for x, y in zip(got1, pre)):
            raise bad("walk", f"{u.nm(root)}.walk() yields {[u.nm(x) for x in got1][:12]}..., nested ops in order are {[u.nm(x) for x in pre][:12]}...")
        got2 = list(root.walk(region_first=True))
        if len(got2) != len(rf) or any(x is not y for x, y in zip(got2, rf)):
            raise bad("walk-region-first", f"{u.nm(root)}.walk(region_first=True) differs from the post-order of the nested ops")
        rec_rev(root)
        got3 = list(root.walk(reverse=True))
        if len(got3) != len(post_rev) or any(x is not y for x, y in zip(got3, post_rev)):
            raise bad("walk-reverse", f"{u.nm(root)}.walk(reverse=True) yields {[u.nm(x) for x in got3][:12]}..., expected {[u.nm(x) for x in post_rev][:12]}...")
        got4 = list(root.walk_blocks())
        if len(got4) != len(blks) or any(x is not y for x, y in zip(got4, blks)):
            raise bad("walk-blocks", f"{u.nm(root)}.walk_blocks() differs from the nested blocks in order")
        n_cmp += 4
    return n_cmp
