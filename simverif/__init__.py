"""Deterministic simulation with fault injection for xDSL (see /verif/DESIGN.md)."""
