import sys

from simverif.kernel import main

if __name__ == "__main__":
    sys.exit(main())
