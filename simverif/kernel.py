"""
Simulator kernel shared by all engines (DESIGN.md section 2).

One integer decides everything: run ``i`` of property ``P`` under ``VERIF_SEED`` uses a
private ``random.Random(derive_seed(P, VERIF_SEED, i))``.  Every decision an engine
takes goes through a :class:`Chooser`, which records it; the record (a dict of named
streams, each a list of steps, each a list of small integers) *is* the replay file:
executing an engine against a record needs no PRNG at all.  Values are interpreted
modulo the number of options that exist at that moment, missing values read as 0, so
any sub-list of a record is still an executable history -- that is what the shrinker
relies on.

Exit codes of a check: 0 = property held on everything explored, 1 = violation
(``VIOLATION property=<id> replay=<path>``), 2 = the harness itself is at fault
(nondeterminism, worker death, replay that does not reproduce, wall cap).
"""

from __future__ import annotations

import faulthandler
import hashlib
import json
import multiprocessing
import os
import random
import signal
import subprocess
import sys
import time
import traceback
from collections import Counter
from collections.abc import Callable, Iterator, Sequence
from concurrent.futures import ProcessPoolExecutor, as_completed
from dataclasses import dataclass, field
from typing import Any

VERIF_DIR = os.path.dirname(os.path.dirname(os.path.abspath(__file__)))
REPLAY_DIR = os.path.join(VERIF_DIR, "replays")
EVIDENCE_DIR = os.environ.get("VERIF_EVIDENCE_DIR") or os.path.join(VERIF_DIR, "evidence")
REPLAY_DIR = os.environ.get("VERIF_REPLAY_DIR") or REPLAY_DIR
KNOWN_FINDINGS = os.path.join(VERIF_DIR, "known_findings.json")
PYTHON = sys.executable


class HarnessError(Exception):
    """Something the harness got wrong; never reported as a violation."""


class WatchdogTimeout(BaseException):
    """Raised in the main thread by the CPU-time watchdog (BaseException so that no
    ``except Exception`` inside the system under test can swallow it)."""


def _on_vtalrm(signum: int, frame: Any) -> None:
    raise WatchdogTimeout()


def arm_watchdog(cpu_seconds: float) -> None:
    """Arm the per-call watchdog: process CPU time (ITIMER_VIRTUAL), immune to machine
    load.  It only ever classifies hang / no hang, with a margin of >= 1000x."""
    signal.signal(signal.SIGVTALRM, _on_vtalrm)
    signal.setitimer(signal.ITIMER_VIRTUAL, cpu_seconds)


def disarm_watchdog() -> None:
    signal.setitimer(signal.ITIMER_VIRTUAL, 0)


def derive_seed(prop: str, verif_seed: int, run: int) -> int:
    h = hashlib.sha256(f"{prop}:{verif_seed}:{run}".encode()).hexdigest()
    return int(h[:12], 16)


# ---------------------------------------------------------------------------
# Choice recording
# ---------------------------------------------------------------------------


class Stream:
    """A named sequence of steps; each step is a list of recorded choices."""

    __slots__ = ("name", "rng", "replay", "ri", "steps", "cur", "src", "pos")

    def __init__(
        self, name: str, rng: random.Random | None, replay: list[list[int]] | None
    ):
        self.name = name
        self.rng = rng
        self.replay = replay
        self.ri = 0
        self.steps: list[list[int]] = []
        self.cur: list[int] | None = None
        self.src: list[int] = []
        self.pos = 0

    @property
    def generating(self) -> bool:
        return self.replay is None

    def begin_step(self) -> bool:
        """Open a new step.  When replaying, False means the record has no more steps
        (the step is still opened; all its choices read 0)."""
        more = True
        if self.replay is not None:
            if self.ri < len(self.replay):
                self.src = self.replay[self.ri]
            else:
                self.src = []
                more = False
            self.ri += 1
        self.cur = []
        self.steps.append(self.cur)
        self.pos = 0
        return more

    def iter_steps(self, n: int) -> Iterator[int]:
        """History loop: ``n`` steps when generating, as many as recorded when replaying."""
        if self.replay is None:
            for i in range(n):
                self.begin_step()
                yield i
        else:
            i = 0
            while True:
                if not self.begin_step():
                    self.steps.pop()
                    self.cur = None
                    return
                yield i
                i += 1

    def choice(self, n: int, gen: Callable[[random.Random], int] | None = None) -> int:
        """An integer in [0, n).  ``gen`` may bias the draw when generating."""
        if n <= 0:
            raise HarnessError(f"choice over {n} options in stream {self.name}")
        if self.cur is None:
            self.begin_step()
        if self.replay is None:
            assert self.rng is not None
            v = self.rng.randrange(n) if gen is None else gen(self.rng)
            if not 0 <= v < n:
                raise HarnessError("biased generator out of range")
        else:
            v = self.src[self.pos] % n if self.pos < len(self.src) else 0
        self.pos += 1
        assert self.cur is not None
        self.cur.append(v)
        return v

    def flag(self, num: int, den: int) -> bool:
        """True with probability num/den when generating; 0 (False) is the simple value."""
        return bool(self.choice(2, lambda r: 1 if r.randrange(den) < num else 0))

    def weighted(self, weights: Sequence[int]) -> int:
        """Index drawn proportionally to ``weights`` (index with weight 0 is never
        returned unless all are 0)."""
        n = len(weights)
        total = sum(weights)
        if total <= 0:
            return self.choice(n)

        def gen(r: random.Random) -> int:
            x = r.randrange(total)
            for i, w in enumerate(weights):
                if x < w:
                    return i
                x -= w
            return n - 1

        v = self.choice(n, gen)
        if weights[v] <= 0:
            # replayed value landed on a disabled option: take the next enabled one
            for k in range(1, n + 1):
                if weights[(v + k) % n] > 0:
                    v = (v + k) % n
                    break
            assert self.cur is not None
            self.cur[-1] = v
        return v

    def pos_choice(self, n: int) -> int:
        """Index into a container of size n, biased to first / last / middle."""

        def gen(r: random.Random) -> int:
            k = r.randrange(8)
            if k < 2:
                return 0
            if k < 4:
                return n - 1
            if k == 4:
                return n // 2
            return r.randrange(n)

        return self.choice(n, gen)


class Chooser:
    """All streams of one run."""

    def __init__(
        self,
        seed: int | None = None,
        record: dict[str, list[list[int]]] | None = None,
    ):
        self.rng = random.Random(seed) if record is None else None
        self.replay = record
        self.streams: dict[str, Stream] = {}

    def stream(self, name: str) -> Stream:
        s = self.streams.get(name)
        if s is None:
            rep = None
            if self.replay is not None:
                rep = self.replay.get(name, [])
            s = Stream(name, self.rng, rep)
            self.streams[name] = s
        return s

    def record(self) -> dict[str, list[list[int]]]:
        return {k: [list(st) for st in s.steps] for k, s in self.streams.items()}


# ---------------------------------------------------------------------------
# Engine interface
# ---------------------------------------------------------------------------


@dataclass
class Violation:
    oracle: str
    call: str
    step: int
    detail: str
    signature: str = ""

    def klass(self) -> tuple[str, str]:
        return (self.oracle, self.call)

    def to_json(self) -> dict[str, Any]:
        return {
            "oracle": self.oracle,
            "call": self.call,
            "step": self.step,
            "detail": self.detail,
            "signature": self.signature or f"{self.oracle}:{self.call}",
        }


@dataclass
class RunResult:
    violation: Violation | None = None
    stats: Counter[str] = field(default_factory=Counter)
    steps: int = 0
    nontrivial: bool = False
    fingerprint: int = 0
    schedule_fp: int | None = None
    trace: list[str] | None = None
    extra_violations: list[Violation] = field(default_factory=list)


class Engine:
    """One per property.  ``run`` must be a pure function of the chooser's decisions."""

    prop = ""
    engine_name = ""
    level = "exploration"
    tiers: dict[str, dict[str, Any]] = {}
    selftest_runs = 200
    # > 1: when a replay does not fail in a fresh interpreter, retry it as "the same
    # recorded run executed up to N times in one process" (violations that need process
    # history, e.g. state kept at class level between two parses)
    replay_repeat_max = 3
    shrink_order: Sequence[str] = ()
    no_delete: Sequence[str] = ("cfg",)

    def prepare(self, tier: str, seed: int) -> None:
        """Called once per process before any run (e.g. to build a corpus)."""

    def run(self, ch: Chooser, trace: bool) -> RunResult:
        raise NotImplementedError

    def rule(self) -> str:
        return ""

    def assumptions(self) -> list[str]:
        return []

    def components(self) -> dict[str, list[str]]:
        return {"real": [], "simulated": [], "stub": []}

    def evidence_extra(self, stats: Counter[str], tier: str) -> dict[str, Any]:
        return {}

    def selftests(self) -> list[str]:
        """Engine-specific harness self tests; return list of failure messages."""
        return []

    def extra_phase(
        self, tier: str, seed: int, workers: int
    ) -> tuple[Counter[str], list[tuple[int, dict[str, Any], Violation]], dict[str, Any]]:
        """Optional additional deterministic phase (e.g. fault enumeration)."""
        return Counter(), [], {}


ENGINES: dict[str, Callable[[], Engine]] = {}


def register(cls: type[Engine]) -> type[Engine]:
    ENGINES[cls.prop] = cls
    return cls


def merge_stats(dst: Counter[str], src: Counter[str]) -> None:
    """Sum counters; keys starting with ``max.`` are merged by maximum."""
    for k, v in src.items():
        if k.startswith("max."):
            if v > dst.get(k, 0):
                dst[k] = v
        else:
            dst[k] += v


def digest_of(trace: Sequence[str]) -> str:
    h = hashlib.sha256()
    for line in trace:
        h.update(line.encode("utf-8", "replace"))
        h.update(b"\n")
    return h.hexdigest()[:24]


def run_seeded(
    eng: Engine, vseed: int, i: int, trace: bool
) -> tuple[RunResult, dict[str, list[list[int]]]]:
    ch = Chooser(seed=derive_seed(eng.prop, vseed, i))
    res = eng.run(ch, trace)
    return res, ch.record()


def run_record(
    eng: Engine, record: dict[str, list[list[int]]], trace: bool
) -> tuple[RunResult, dict[str, list[list[int]]]]:
    ch = Chooser(record=record)
    res = eng.run(ch, trace)
    return res, ch.record()


# ---------------------------------------------------------------------------
# Shrinking
# ---------------------------------------------------------------------------


def shrink(
    eng: Engine,
    record: dict[str, list[list[int]]],
    klass: tuple[str, str],
    budget_s: float = 60.0,
    max_execs: int = 6000,
) -> tuple[dict[str, list[list[int]]], int]:
    """ddmin over steps, then per-value minimisation, keeping the violation class."""
    t_end = time.monotonic() + budget_s
    execs = 0

    def still_fails(cand: dict[str, list[list[int]]]):
        nonlocal execs
        execs += 1
        try:
            res, norm = run_record(eng, cand, False)
        except HarnessError:
            return None
        if res.violation is not None and res.violation.klass() == klass:
            return norm
        return None

    base = still_fails(record)
    if base is None:
        return record, execs
    cur = base
    order = [s for s in eng.shrink_order if s in cur] + [
        s for s in cur if s not in eng.shrink_order
    ]

    def out_of_budget() -> bool:
        return time.monotonic() > t_end or execs > max_execs

    changed = True
    while changed and not out_of_budget():
        changed = False
        # 1. delete steps (ddmin style: chunks of halving size)
        for name in order:
            if name in eng.no_delete:
                continue
            n = len(cur[name])
            chunk = max(1, n // 2)
            while chunk >= 1 and not out_of_budget():
                i = 0
                while i < len(cur[name]) and not out_of_budget():
                    cand = dict(cur)
                    cand[name] = cur[name][:i] + cur[name][i + chunk :]
                    if len(cand[name]) == len(cur[name]):
                        break
                    norm = still_fails(cand)
                    if norm is not None:
                        cur = norm
                        changed = True
                    else:
                        i += chunk
                if chunk == 1:
                    break
                chunk //= 2
        # 2. minimise values
        for name in order:
            si = 0
            while si < len(cur[name]) and not out_of_budget():
                vi = 0
                while vi < len(cur[name][si]) and not out_of_budget():
                    v = cur[name][si][vi]
                    for nv in (0, v // 2, v - 1):
                        if nv < 0 or nv >= v:
                            continue
                        cand = {k: [list(s) for s in st] for k, st in cur.items()}
                        cand[name][si][vi] = nv
                        norm = still_fails(cand)
                        if norm is not None:
                            cur = norm
                            changed = True
                            break
                    vi += 1
                si += 1
    return cur, execs


# ---------------------------------------------------------------------------
# Known findings
# ---------------------------------------------------------------------------


def load_known_findings(prop: str) -> dict[str, dict[str, Any]]:
    """signature -> entry, for entries with status 'known' of this property."""
    try:
        with open(KNOWN_FINDINGS) as f:
            data = json.load(f)
    except FileNotFoundError:
        return {}
    out: dict[str, dict[str, Any]] = {}
    for e in data.get("findings", []):
        if e.get("property") == prop and e.get("status") == "known":
            out[e["signature"]] = e
    return out


# ---------------------------------------------------------------------------
# Batch runner
# ---------------------------------------------------------------------------

_ENGINE: Engine | None = None
_KNOWN_SIGS: frozenset[str] = frozenset()
RUN_WALL_BACKSTOP_S = 900
_MAX_VIOL_PER_CHUNK = 10
_STOP_AFTER_VIOLATIONS = 60


@dataclass
class ChunkResult:
    start: int
    count: int
    stats: Counter[str] = field(default_factory=Counter)
    steps: int = 0
    nontrivial: list[int] = field(default_factory=list)
    schedules: list[int] = field(default_factory=list)
    digests: dict[int, str] = field(default_factory=dict)
    digest_traces: dict[int, list[str]] = field(default_factory=dict)
    samples: list[Any] = field(default_factory=list)
    violations: list[tuple[int, dict[str, list[list[int]]], Violation]] = field(
        default_factory=list
    )
    known: list[tuple[int, dict[str, list[list[int]]], Violation]] = field(default_factory=list)
    harness_error: str | None = None


def _run_chunk(args: tuple[str, int, int, int, int, int]) -> ChunkResult:
    prop, vseed, start, count, n_digest, n_samples = args
    eng = _ENGINE
    assert eng is not None and eng.prop == prop
    out = ChunkResult(start, count)
    try:
        for i in range(start, start + count):
            # wall-clock backstop per run (not per chunk): kills the worker -> exit 2
            faulthandler.dump_traceback_later(RUN_WALL_BACKSTOP_S, exit=True)
            want_trace = i < n_digest or i < n_samples
            res, rec = run_seeded(eng, vseed, i, want_trace)
            merge_stats(out.stats, res.stats)
            out.stats["runs"] += 1
            out.steps += res.steps
            if res.nontrivial:
                out.nontrivial.append(res.fingerprint)
            if res.schedule_fp is not None:
                out.schedules.append(res.schedule_fp)
            if i < n_digest:
                assert res.trace is not None
                out.digests[i] = digest_of(res.trace)
                out.digest_traces[i] = [ln[:400] for ln in res.trace[:40]]
            if i < n_samples:
                out.samples.append(
                    {"run": i, "seed": derive_seed(prop, vseed, i), "trace": res.trace}
                )
            vs = ([res.violation] if res.violation else []) + res.extra_violations
            for v in vs:
                sig = v.signature or f"{v.oracle}:{v.call}"
                if sig in _KNOWN_SIGS:
                    # a listed known finding: counted, a few kept for the KNOWN-FINDING
                    # line, never a reason to cut the chunk or the batch short
                    out.stats["known_finding_hits." + sig] += 1
                    if out.stats["known_finding_hits." + sig] <= 2:
                        out.known.append((i, rec, v))
                    continue
                if len(out.violations) < _MAX_VIOL_PER_CHUNK:
                    out.violations.append((i, rec, v))
                out.stats["violations_raw"] += 1
            if len(out.violations) >= _MAX_VIOL_PER_CHUNK:
                out.stats["chunks_cut_short_after_many_violations"] += 1
                break
    except BaseException:
        out.harness_error = traceback.format_exc()
    finally:
        faulthandler.cancel_dump_traceback_later()
    return out


@dataclass
class BatchResult:
    runs: int = 0
    steps: int = 0
    stats: Counter[str] = field(default_factory=Counter)
    nontrivial: set[int] = field(default_factory=set)
    nontrivial_saturated: bool = False
    schedules: set[int] = field(default_factory=set)
    digests: dict[int, str] = field(default_factory=dict)
    digest_traces: dict[int, list[str]] = field(default_factory=dict)
    samples: list[Any] = field(default_factory=list)
    violations: list[tuple[int, dict[str, list[list[int]]], Violation]] = field(
        default_factory=list
    )
    wall_capped: bool = False
    stopped_early: bool = False


_SET_CAP = 4_000_000


def run_batch(
    eng: Engine,
    vseed: int,
    n_runs: int,
    workers: int,
    wall_cap_s: float,
    n_digest: int,
    n_samples: int,
    chunk: int | None = None,
) -> BatchResult:
    global _ENGINE, _KNOWN_SIGS
    _ENGINE = eng
    _KNOWN_SIGS = frozenset(load_known_findings(eng.prop))
    if chunk is None:
        chunk = max(1, min(2000, n_runs // (workers * 8) or 1))
    tasks = [
        (eng.prop, vseed, s, min(chunk, n_runs - s), n_digest, n_samples)
        for s in range(0, n_runs, chunk)
    ]
    br = BatchResult()
    t0 = time.monotonic()
    if workers <= 1:
        results = map(_run_chunk, tasks)
        for r in results:
            _merge(br, r)
            if time.monotonic() - t0 > wall_cap_s:
                br.wall_capped = True
                break
        return br
    ctx = multiprocessing.get_context("fork")
    with ProcessPoolExecutor(max_workers=workers, mp_context=ctx) as ex:
        futs = [ex.submit(_run_chunk, t) for t in tasks]
        try:
            for f in as_completed(futs):
                if f.cancelled():
                    continue
                r = f.result()
                _merge(br, r)
                if time.monotonic() - t0 > wall_cap_s and not br.wall_capped:
                    br.wall_capped = True
                    for g in futs:
                        g.cancel()
                if len(br.violations) >= _STOP_AFTER_VIOLATIONS and not br.stopped_early:
                    br.stopped_early = True
                    for g in futs:
                        g.cancel()
        except Exception as e:  # BrokenProcessPool, worker death
            for g in futs:
                g.cancel()
            if isinstance(e, HarnessError):
                raise
            raise HarnessError(f"worker pool failed: {type(e).__name__}: {e}")
    return br


def _merge(br: BatchResult, r: ChunkResult) -> None:
    if r.harness_error is not None:
        raise HarnessError("engine raised outside a simulated call:\n" + r.harness_error)
    br.runs += r.stats.get("runs", 0)
    br.steps += r.steps
    merge_stats(br.stats, r.stats)
    if len(br.nontrivial) < _SET_CAP:
        br.nontrivial.update(r.nontrivial)
    else:
        br.nontrivial_saturated = True
    if len(br.schedules) < _SET_CAP:
        br.schedules.update(r.schedules)
    br.digests.update(r.digests)
    br.digest_traces.update(r.digest_traces)
    br.samples.extend(r.samples)
    br.violations.extend(r.violations)


# ---------------------------------------------------------------------------
# Check driver
# ---------------------------------------------------------------------------


def _fresh_digests(prop: str, vseed: int, n: int, hashseed: str, tier: str = "quick") -> subprocess.Popen[str]:
    env = dict(os.environ)
    env["PYTHONHASHSEED"] = hashseed
    env["VERIF_SEED"] = str(vseed)
    return subprocess.Popen(
        [PYTHON, "-m", "simverif", prop, "--digests", str(n), "--tier", tier],
        cwd=VERIF_DIR,
        env=env,
        stdout=subprocess.PIPE,
        stderr=subprocess.PIPE,
        text=True,
    )


def write_replay(
    prop: str,
    eng: Engine,
    vseed: int,
    run: int,
    record: dict[str, list[list[int]]],
    v: Violation,
    original_len: int,
    shrink_execs: int,
    tier: str = "quick",
    repeat: int = 1,
) -> str:
    os.makedirs(REPLAY_DIR, exist_ok=True)
    res, norm = run_record(eng, record, True)
    tag = hashlib.sha256((v.signature or v.oracle).encode()).hexdigest()[:8]
    rn = f"run{run}" if run >= 0 else "enum"
    path = os.path.join(REPLAY_DIR, f"{prop}-seed{vseed}-{rn}-{v.oracle}-{tag}.json".replace("/", "_"))
    doc = {
        "property": prop,
        "engine": eng.engine_name,
        "verif_seed": vseed,
        "tier": tier,
        "repeat": repeat,
        "run": run,
        "run_seed": derive_seed(prop, vseed, run),
        "record": norm,
        "violation": (res.violation or v).to_json(),
        "trace": res.trace,
        "digest": digest_of(res.trace or []),
        "minimised_from_steps": original_len,
        "minimised_to_steps": sum(len(s) for s in norm.values()),
        "shrink_executions": shrink_execs,
        "replay_cmd": f"{PYTHON} -m simverif {prop} --replay {path}",
    }
    with open(path, "w") as f:
        json.dump(doc, f, indent=1)
    return path


def replay_file(prop: str, path: str) -> int:
    eng = ENGINES[prop]()
    with open(path) as f:
        doc = json.load(f)
    eng.prepare(doc.get("tier", "quick"), int(doc.get("verif_seed", 0)))
    repeat = max(1, int(doc.get("repeat", 1)))
    want = doc["violation"]
    res = None
    for rep in range(repeat):
        res, _ = run_record(eng, doc["record"], True)
        if repeat > 1:
            print(f"  -- execution {rep + 1} of {repeat} in this process")
        for line in res.trace or []:
            print("  " + line)
        if res.violation is not None:
            break
    assert res is not None
    if res.violation is None:
        print(f"replay: no violation reproduced (expected {want['oracle']}:{want['call']})")
        return 0
    got = res.violation
    d = digest_of(res.trace or [])
    print(f"replay: {got.oracle} at step {got.step} in {got.call}: {got.detail}")
    print(f"replay: digest {d} (recorded {doc.get('digest')})")
    same = got.oracle == want["oracle"] and got.call == want["call"] and (repeat > 1 or d == doc.get("digest"))
    if not same:
        print("replay: a violation occurred but not the recorded one")
        return 3
    print(f"VIOLATION property={prop} replay={path}")
    return 1


def print_digests(prop: str, n: int, tier: str = "quick") -> int:
    eng = ENGINES[prop]()
    vseed = int(os.environ.get("VERIF_SEED", "0") or 0)
    eng.prepare(tier, vseed)
    out = {}
    for i in range(n):
        res, _ = run_seeded(eng, vseed, i, True)
        out[str(i)] = digest_of(res.trace or [])
    print(json.dumps(out))
    return 0


def check(prop: str, tier: str) -> int:
    t0 = time.monotonic()
    vseed = int(os.environ.get("VERIF_SEED", "0") or 0)
    eng = ENGINES[prop]()
    cfg = dict(eng.tiers[tier])
    for k in ("runs", "wall_cap_s"):
        ov = os.environ.get(f"VERIF_{k.upper()}")
        if ov:
            cfg[k] = type(cfg[k])(ov)
    workers = int(os.environ.get("VERIF_WORKERS", "0") or 0) or min(16, os.cpu_count() or 1)
    import xdsl

    print(
        f"[{prop}] engine={eng.engine_name} tier={tier} VERIF_SEED={vseed} workers={workers} "
        f"xdsl={os.path.dirname(xdsl.__file__)}"
    )
    try:
        eng.prepare(tier, vseed)
    except HarnessError:
        raise
    except Exception as e:  # noqa: BLE001 - the harness could not even set itself up on this tree
        print(f"HARNESS-ERROR: prepare failed: {type(e).__name__}: {str(e)[:300]}")
        return 2
    known = load_known_findings(prop)
    n_self = min(eng.selftest_runs, cfg["runs"])

    # -- self tests (harness): failures exit 2, never a VIOLATION ------------
    hs_other = "12345" if os.environ.get("PYTHONHASHSEED") != "12345" else "54321"
    fresh = _fresh_digests(prop, vseed, n_self, hs_other, tier)
    for msg in eng.selftests():
        print(f"HARNESS-SELFTEST-FAILED: {msg}")
        fresh.kill()
        return 2
    local: dict[int, str] = {}
    local_traces: dict[int, list[str]] = {}
    history_viols: list[tuple[int, dict[str, list[list[int]]], Violation]] = []
    for i in range(n_self):
        r1, rec = run_seeded(eng, vseed, i, True)
        r2, _ = run_seeded(eng, vseed, i, True)
        r3, _ = run_record(eng, rec, True)
        d1, d2, d3 = (digest_of(r.trace or []) for r in (r1, r2, r3))
        if not (d1 == d2 == d3) and any(r.violation is not None for r in (r1, r2, r3)):
            # the executions of one run differ *and* one of them violates the property: the
            # system under test keeps state between runs (that is the finding, not a harness
            # fault); it is reported through a replay that repeats the run in one process
            vv = next(r.violation for r in (r1, r2, r3) if r.violation is not None)
            history_viols.append((i, rec, vv))
            local[i] = d1
            local_traces[i] = [ln[:400] for ln in (r1.trace or [])[:40]]
            continue
        if not (d1 == d2 == d3):
            print(
                f"HARNESS-NONDETERMINISM: run {i}: in-process digests differ "
                f"(seeded {d1}, seeded again {d2}, from record {d3})"
            )
            fresh.kill()
            return 2
        local[i] = d1
        local_traces[i] = [ln[:400] for ln in (r1.trace or [])[:40]]

    # -- the batch ------------------------------------------------------------
    try:
        br = run_batch(
            eng, vseed, cfg["runs"], workers, cfg["wall_cap_s"], n_self, cfg.get("samples", 3)
        )
        x_stats, x_viol, x_cov = eng.extra_phase(tier, vseed, workers)
    except HarnessError as e:
        print(f"HARNESS-ERROR: {e}")
        fresh.kill()
        return 2
    merge_stats(br.stats, x_stats)
    br.violations.extend(x_viol)
    br.violations.extend(history_viols)
    viol_runs = {run for run, _, _ in br.violations}

    # -- determinism across processes / hash seeds ---------------------------
    try:
        out, err = fresh.communicate(timeout=600)
    except subprocess.TimeoutExpired:
        fresh.kill()
        print("HARNESS-ERROR: fresh-interpreter digest run timed out")
        return 2
    if fresh.returncode != 0:
        print("HARNESS-ERROR: fresh-interpreter digest run failed:\n" + err[-2000:])
        return 2
    fd = {int(k): v for k, v in json.loads(out.strip().splitlines()[-1]).items()}
    for i in range(n_self):
        if not (local[i] == fd.get(i) == br.digests.get(i, local[i])) and i in viol_runs:
            continue  # differs between processes *and* violates: judged below as a violation that needs history
        if not (local[i] == fd.get(i) == br.digests.get(i, local[i])):
            print(
                f"HARNESS-NONDETERMINISM: run {i}: digest in this process {local[i]}, "
                f"worker {br.digests.get(i)}, fresh interpreter (PYTHONHASHSEED={hs_other}) {fd.get(i)}"
            )
            print("  trace in this process:")
            for ln in local_traces.get(i, []):
                print("    " + ln)
            print("  trace in the forked worker:")
            for ln in br.digest_traces.get(i, []):
                print("    " + ln)
            return 2
    print(
        f"[{prop}] determinism self-test: {n_self} runs x (2 in-process + from-record + "
        f"forked worker + fresh interpreter PYTHONHASHSEED={hs_other}) digests equal"
    )

    # -- violations -------------------------------------------------------------
    status = 0
    br.violations.sort(key=lambda t: t[0])
    seen_sig: dict[str, int] = {}
    known_hits: Counter[str] = Counter()
    for k, n in br.stats.items():
        if k.startswith("known_finding_hits."):
            known_hits[k[len("known_finding_hits.") :]] += n
    reported: list[dict[str, Any]] = []
    by_sig: dict[str, list[tuple[int, dict[str, list[list[int]]], Violation]]] = {}
    for run, rec, v in br.violations:
        sig = v.signature or f"{v.oracle}:{v.call}"
        if sig in known:
            known_hits[sig] += 1
            continue
        seen_sig[sig] = seen_sig.get(sig, 0) + 1
        by_sig.setdefault(sig, []).append((run, rec, v))
    env = dict(os.environ)
    env["PYTHONHASHSEED"] = hs_other

    def _replay(path: str) -> int:
        try:
            pr = subprocess.run(
                [PYTHON, "-m", "simverif", prop, "--replay", path],
                cwd=VERIF_DIR, env=env, capture_output=True, text=True, timeout=1800,
            )
        except subprocess.TimeoutExpired:
            return 124
        _replay.last_out = pr.stdout  # type: ignore[attr-defined]
        return pr.returncode

    for sig, cands in by_sig.items():
        if len(reported) >= 5:
            break
        # a violation that depends on what the *process* did before (state kept at class or
        # module level) may not be reproducible from its own input alone: try a few
        # occurrences of the signature (sampled runs first: they tend to be self-contained)
        cands = sorted(cands, key=lambda t: (t[0] < 0, t[0]))[:6]
        confirmed = False
        last_fail = ""
        for run, rec, v in cands:
            if run < 0:
                # violation from an enumerated phase: record is already minimal
                small, execs = rec, 0
            else:
                small, execs = shrink(eng, rec, v.klass())
            n0 = sum(len(st_) for st_ in rec.values())
            path = write_replay(prop, eng, vseed, run, small, v, n0, execs, tier)
            rc = _replay(path)
            if rc == 0 and eng.replay_repeat_max > 1:
                # not reproduced by one execution in a fresh process: does it need history?
                path = write_replay(prop, eng, vseed, run, small, v, n0, execs, tier, repeat=eng.replay_repeat_max)
                rc = _replay(path)
                if rc == 1:
                    print(
                        f"note: the violation below needs process history: the replay executes the recorded "
                        f"input up to {eng.replay_repeat_max} times in one process"
                    )
            if rc == 1:
                print(f"violation: {v.oracle} in {v.call} at step {v.step}: {v.detail} [signature {sig}]")
                print(f"VIOLATION property={prop} replay={path}")
                reported.append({"signature": sig, "replay": path, **v.to_json()})
                confirmed = True
                break
            last_fail = (
                f"HARNESS-ERROR: replay of {path} in a fresh interpreter did not reproduce (exit {rc}); not reported as a violation\n"
                + getattr(_replay, "last_out", "")[-1500:]
            )
        if confirmed:
            status = max(status, 1) if status != 2 else 2
        else:
            print(last_fail)
            print(f"  ({len(cands)} occurrence(s) of signature {sig} tried)")
            status = 2
    if seen_sig:
        print(f"[{prop}] violation signatures in this batch: " + ", ".join(f"{k} x{n}" for k, n in sorted(seen_sig.items())))
    for sig in sorted(known):
        n = known_hits.get(sig, 0)
        hit = f"hit {n}x in this run" if n else "listed in known_findings.json; not hit by this run's sample"
        print(f"KNOWN-FINDING: property={prop} {known[sig]['what']} [signature {sig}; {hit}]")

    if br.wall_capped:
        print(f"[{prop}] note: wall cap reached, {br.runs} of {cfg['runs']} runs executed")
    if br.runs == 0:
        print("HARNESS-ERROR: no runs executed")
        return 2

    # -- evidence -------------------------------------------------------------
    wall = time.monotonic() - t0
    stats = br.stats
    extra = eng.evidence_extra(stats, tier)
    enum_fps = x_cov.pop("enumerated_fingerprints", None)
    if enum_fps is not None:
        # distinct non-trivial cases of the enumerated phase that the sampled phase did not also produce
        x_cov["enumerated_distinct"] = len(set(enum_fps) - br.nontrivial)
    extra.update(x_cov)
    cov: dict[str, Any] = {
        "evaluations": br.runs + int(x_stats.get("enumerated_inputs", 0)),
        "distinct_nontrivial": len(br.nontrivial) + int(x_cov.get("enumerated_distinct", 0)),
        "rule": eng.rule()
        + (" (distinct count saturated at cap; lower bound)" if br.nontrivial_saturated else ""),
        "samples": br.samples[: cfg.get("samples", 3)],
        "simulated_runs": br.runs,
        "simulated_steps": br.steps,
        "runs_per_hour": int(br.runs / wall * 3600) if wall > 0 else 0,
        "seeds_per_hour": int(br.runs / wall * 3600) if wall > 0 else 0,
        "simulated_time": f"{br.steps} simulator steps (the step counter is the only clock)",
        "distinct_schedules": len(br.schedules),
        "workers": workers,
        "runs_requested": cfg["runs"],
        "wall_capped": br.wall_capped,
        "determinism_selftest_runs": n_self,
        "components": eng.components(),
        "known_findings_hit": dict(known_hits),
        "violations_reported": reported,
        "exhaustive": False,
    }
    cov.update(extra)
    ev = {
        "property_id": prop,
        "tier": tier,
        "seed": vseed,
        "level": eng.level,
        "coverage": cov,
        "assumptions": eng.assumptions(),
        "wall_s": round(wall, 2),
        "violations": len(reported),
    }
    os.makedirs(EVIDENCE_DIR, exist_ok=True)
    with open(os.path.join(EVIDENCE_DIR, f"{prop}.json"), "w") as f:
        json.dump(ev, f, indent=1, default=str)
    print(
        f"[{prop}] runs={br.runs} steps={br.steps} distinct_nontrivial={cov['distinct_nontrivial']} "
        f"violations={len(reported)} known={sum(known_hits.values())} wall={wall:.1f}s exit={status}"
    )
    return status


def main(argv: list[str] | None = None) -> int:
    import argparse

    ap = argparse.ArgumentParser(prog="simverif")
    ap.add_argument("prop")
    ap.add_argument("--tier", default=os.environ.get("VERIF_TIER") or "quick")
    ap.add_argument("--replay")
    ap.add_argument("--digests", type=int)
    a = ap.parse_args(argv)
    # engines register themselves on import
    from simverif import engines  # noqa: F401

    if a.prop not in ENGINES:
        print(f"unknown property {a.prop}; have {sorted(ENGINES)}")
        return 2
    try:
        if a.replay:
            return replay_file(a.prop, a.replay)
        if a.digests is not None:
            return print_digests(a.prop, a.digests, a.tier)
        return check(a.prop, a.tier)
    except HarnessError as e:
        print(f"HARNESS-ERROR: {e}")
        return 2
